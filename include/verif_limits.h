// Forced include used ONLY while dumping the clang AST (never compiled into opensmt).
// It rebinds the <climits>/<cstdint> limit macros to named constexpr objects with the SAME values, so that
// WORD_MAX etc. reach the AST as references to OSMT_LIM_* instead of folded literals; the lowered C then
// uses OSMT_LIM_* symbols that the real-width or scaled-width type header defines.
#pragma once
#include <climits>
#include <cstdint>
#include <cstddef>
inline constexpr int           OSMT_LIM_INT_MAX   = INT_MAX;
inline constexpr int           OSMT_LIM_INT_MIN   = INT_MIN;
inline constexpr unsigned int  OSMT_LIM_UINT_MAX  = UINT_MAX;
inline constexpr long          OSMT_LIM_LONG_MAX  = LONG_MAX;
inline constexpr long          OSMT_LIM_LONG_MIN  = LONG_MIN;
inline constexpr unsigned long OSMT_LIM_ULONG_MAX = ULONG_MAX;
inline constexpr int           OSMT_LIM_INT32_MAX = INT32_MAX;
inline constexpr int           OSMT_LIM_INT32_MIN = INT32_MIN;
inline constexpr long          OSMT_LIM_PTRDIFF_MAX = PTRDIFF_MAX;
inline constexpr long          OSMT_LIM_PTRDIFF_MIN = PTRDIFF_MIN;
#undef INT_MAX
#undef INT_MIN
#undef UINT_MAX
#undef LONG_MAX
#undef LONG_MIN
#undef ULONG_MAX
#undef INT32_MAX
#undef INT32_MIN
#undef PTRDIFF_MAX
#undef PTRDIFF_MIN
#define INT_MAX   OSMT_LIM_INT_MAX
#define INT_MIN   OSMT_LIM_INT_MIN
#define UINT_MAX  OSMT_LIM_UINT_MAX
#define LONG_MAX  OSMT_LIM_LONG_MAX
#define LONG_MIN  OSMT_LIM_LONG_MIN
#define ULONG_MAX OSMT_LIM_ULONG_MAX
#define INT32_MAX OSMT_LIM_INT32_MAX
#define INT32_MIN OSMT_LIM_INT32_MIN
#define PTRDIFF_MAX OSMT_LIM_PTRDIFF_MAX
#define PTRDIFF_MIN OSMT_LIM_PTRDIFF_MIN
