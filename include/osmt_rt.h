/* runtime glue shared by every lowered file */
#ifndef OSMT_RT_H
#define OSMT_RT_H
#ifdef OSMT_NATIVE
  /* native compilation of the lowered text (translation smoke test) */
  #include <assert.h>
  #include <stdlib.h>
  #define OSMT_ASSERT(c, t) assert(c)
  #define OSMT_ASSERT_WF(c, t) assert(c)
  #define OSMT_ABORT() abort()
  #define OSMT_REACH(t) ((void)0)
#else
  #define OSMT_ASSERT(c, t) __CPROVER_assert((c), "code-assert: " t)
  /* asserts whose condition contains the coprimality conjunct are obligations only where a spec gcd exists (S) */
  #ifdef OSMT_CHECK_WF_ASSERTS
    #define OSMT_ASSERT_WF(c, t) __CPROVER_assert((c), "code-assert: " t)
  #else
    #define OSMT_ASSERT_WF(c, t) ((void)0)
  #endif
  #define OSMT_ABORT() do { __CPROVER_assert(0, "abort() reachable"); __CPROVER_assume(0); } while (0)
  /* reachability probe: must be reported FAILED, otherwise the job is vacuous */
  #define OSMT_REACH(t) __CPROVER_assert(0, "reach: " t)
#endif
struct osmt_string { t_char *p; t_ulong n; };   /* std::string after lowering */
struct osmt_opaque_field { char __o; };   /* a class member of a library type that no stub header describes */
struct osmt_ilist { void *p; unsigned long n; };   /* std::initializer_list<T> after lowering */
extern int __osmt_thrown;
void *malloc(__CPROVER_size_t);
#define OSMT_DUMMY_PTR(T) ((T)malloc(sizeof(*((T)0))))
#define OSMT_THROW(e) (__osmt_thrown = (e))
#ifndef OSMT_AFTER_TYPES
#define OSMT_AFTER_TYPES
#endif
#endif
