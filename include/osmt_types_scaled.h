/* width-scaled instantiation (S): every 32-bit integer type becomes W bits, every 64-bit type 2W bits.
   __CPROVER_bitvector types take no part in integer promotion, so the conversion lattice between
   (word,uword,lword,ulword) is the same as at (32,64).  Results obtained with this header are BOUNDED
   (exhaustive at width W), never reported as proof. */
#ifndef OSMT_TYPES_H
#define OSMT_TYPES_H
#ifndef OSMT_W
#error "define OSMT_W"
#endif
#define OSMT_SCALED_WIDTH OSMT_W
#define OSMT_W2 (2*OSMT_W)
typedef _Bool t_bool;
typedef char t_char; typedef signed char t_schar; typedef unsigned char t_uchar;
typedef short t_short; typedef unsigned short t_ushort;
typedef __CPROVER_bitvector[OSMT_W] t_int;   typedef unsigned __CPROVER_bitvector[OSMT_W] t_uint;
typedef __CPROVER_bitvector[OSMT_W2] t_long; typedef unsigned __CPROVER_bitvector[OSMT_W2] t_ulong;
typedef t_long t_llong; typedef t_ulong t_ullong;
typedef double t_double; typedef float t_float;
typedef t_int t_word; typedef t_uint t_uword; typedef t_long t_lword; typedef t_ulong t_ulword;
/* uint32_t / int32_t / uint64_t / int64_t *as spelled in the source* are identifier-like (PTRef, LVRef, SymRef, hashes) or
   wider-than-word inputs; they get whole bytes (8 / 16 bits >= W / 2W).  CBMC mis-addresses ARRAYS of structs whose fields
   are sub-byte bit-vectors when they are accessed through pointers (measured: a store through `base + 1` landed in element 2),
   so no struct that is kept in an array may contain a sub-byte field.  word/uword/lword/ulword stay W / 2W bits. */
typedef unsigned __CPROVER_bitvector[8] t_u32; typedef __CPROVER_bitvector[8] t_i32;
typedef unsigned __CPROVER_bitvector[16] t_u64; typedef __CPROVER_bitvector[16] t_i64;
typedef t_ulong t_size; typedef t_long t_ptrdiff;
/* wide ghost types for exact specification arithmetic */
typedef __CPROVER_bitvector[4*OSMT_W+12] t_int128; typedef unsigned __CPROVER_bitvector[4*OSMT_W+12] t_uint128;
#define OSMT_LIM_INT_MAX   ((t_int)((((t_long)1) << (OSMT_W-1)) - 1))
#define OSMT_LIM_INT_MIN   ((t_int)(-(((t_long)1) << (OSMT_W-1))))
#define OSMT_LIM_UINT_MAX  ((t_uint)((((t_ulong)1) << OSMT_W) - 1))
#define OSMT_LIM_LONG_MAX  ((t_long)((((t_int128)1) << (OSMT_W2-1)) - 1))
#define OSMT_LIM_LONG_MIN  ((t_long)(-(((t_int128)1) << (OSMT_W2-1))))
#define OSMT_LIM_ULONG_MAX ((t_ulong)((((t_uint128)1) << OSMT_W2) - 1))
#define OSMT_LIM_INT32_MAX OSMT_LIM_INT_MAX
#define OSMT_LIM_INT32_MIN OSMT_LIM_INT_MIN
#define OSMT_LIM_PTRDIFF_MAX OSMT_LIM_LONG_MAX
#define OSMT_LIM_PTRDIFF_MIN OSMT_LIM_LONG_MIN
#endif
