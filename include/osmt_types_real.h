/* real-width instantiation (R): the types the repository is compiled with on x86-64 Linux */
#ifndef OSMT_TYPES_H
#define OSMT_TYPES_H
#define OSMT_REAL_WIDTH 1
typedef _Bool t_bool;
typedef char t_char; typedef signed char t_schar; typedef unsigned char t_uchar;
typedef short t_short; typedef unsigned short t_ushort;
typedef int t_int; typedef unsigned int t_uint;
typedef long t_long; typedef unsigned long t_ulong;
typedef long long t_llong; typedef unsigned long long t_ullong;
typedef double t_double; typedef float t_float;
typedef int t_word; typedef unsigned int t_uword; typedef long t_lword; typedef unsigned long t_ulword;
typedef unsigned int t_u32; typedef int t_i32; typedef unsigned long t_u64; typedef long t_i64;
typedef unsigned long t_size; typedef long t_ptrdiff;
typedef __int128 t_int128; typedef unsigned __int128 t_uint128;
#define OSMT_LIM_INT_MAX   2147483647
#define OSMT_LIM_INT_MIN   (-2147483647 - 1)
#define OSMT_LIM_UINT_MAX  4294967295u
#define OSMT_LIM_LONG_MAX  9223372036854775807l
#define OSMT_LIM_LONG_MIN  (-9223372036854775807l - 1l)
#define OSMT_LIM_ULONG_MAX 18446744073709551615ul
#define OSMT_LIM_INT32_MAX 2147483647
#define OSMT_LIM_INT32_MIN (-2147483647 - 1)
#define OSMT_LIM_PTRDIFF_MAX 9223372036854775807l
#define OSMT_LIM_PTRDIFF_MIN (-9223372036854775807l - 1l)
#endif
