/* C28 -- Logic::mkFun, the hash-consing constructor of application terms.
 * View: the term store is a list of terms (id = position, content = symbol + argument list) and three maps from keys
 * (symbol, argument list) to terms -- PtStore's cterm / complex / Boolean maps, here one ghost table with a map tag.  The
 * PtStore operations are stubs with the obvious map contracts plus obligations at every call:
 *    newTerm      creates the NEXT id; every argument is an existing term (so: created after all of its subterms)
 *    addTo*Map    the key is not yet in that map, and the term stored under it HAS that key as its content
 *    getFrom*Map  only after has*Key said yes
 * Logic::termSort is assumed to put the arguments into one canonical order (ascending reference).
 * Obligations on mkFun (harness): the same application built twice is the same term (also with commuted arguments for a
 * commutative non-Boolean symbol); different applications are different terms; a new term is newer than its arguments. */
#ifndef C28_HASHCONS_H
#define C28_HASHCONS_H
t_bool nondet_bool(void); t_uchar nondet_uchar(void); int __osmt_thrown;
#define NSYM 4
#define NT 10
struct symdesc { t_bool boolop, commutes, left_assoc, right_assoc, chainable, pairwise; t_u32 nargs; };
struct symdesc h_sym[NSYM];
struct tcontent { t_u32 sym; t_int n; t_u32 a[3]; };
struct tcontent g_term[NT]; t_int g_nterms;          /* the store: term id -> content */
struct kentry { t_uchar map; struct tcontent key; t_u32 term; };
struct kentry g_tab[NT]; t_int g_ntab;               /* the three maps */
#define MAP_CTERM 0
#define MAP_CPLX 1
#define MAP_BOOL 2
static t_bool same_content(const struct tcontent *x, t_u32 sym, t_int n, const t_u32 *a) {
  return x->sym == sym && x->n == n && (n < 1 || x->a[0] == a[0]) && (n < 2 || x->a[1] == a[1]) && (n < 3 || x->a[2] == a[2]); }
static void key_of(struct PTLKey *k, t_int *n, t_u32 *a) { *n = k->args.sz; __CPROVER_assert(*n >= 1 && *n <= 3, "key of one to three arguments (arena bound)");
  for (int i = 0; i < 3; i++) a[i] = (i < *n) ? k->args.data[i].x : 0; }
static t_int tab_find(t_uchar map, t_u32 sym, t_int n, const t_u32 *a) { for (int i = 0; i < NT; i++) if (i < g_ntab && g_tab[i].map == map && same_content(&g_tab[i].key, sym, n, a)) return i; return -1; }
static void tab_add(t_uchar map, t_u32 sym, t_int n, const t_u32 *a, struct PTRef tr) {
  __CPROVER_assert(tab_find(map, sym, n, a) < 0, "a key is inserted into a map once");
  __CPROVER_assert(tr.x < (t_u32)g_nterms && same_content(&g_term[tr.x < NT ? tr.x : 0], sym, n, a), "the term registered under a key is the application the key describes");
  __CPROVER_assert(g_ntab < NT, "ghost table large enough for the harness");
  struct kentry *e = &g_tab[g_ntab < NT ? g_ntab : 0]; e->map = map; e->key.sym = sym; e->key.n = n; for (int i = 0; i < 3; i++) e->key.a[i] = a[i]; e->term = tr.x; g_ntab++; }
/* ---- PtStore ----------------------------------------------------------------------------------------------------------- */
t_int g_new_calls;
struct PTRef PtStore__newTerm(void *self, struct SymRef s, struct vec_PTRef *ps) {
  t_int n = ps->sz; __CPROVER_assert(n >= 0 && n <= 3, "application of at most three arguments (arena bound)"); __CPROVER_assert(g_nterms < NT, "ghost store large enough for the harness");
  struct tcontent *c = &g_term[g_nterms < NT ? g_nterms : 0]; c->sym = s.x; c->n = n;
  for (int i = 0; i < 3; i++) { c->a[i] = (i < n) ? ps->data[i].x : 0; if (i < n) __CPROVER_assert(ps->data[i].x < (t_u32)g_nterms, "every argument exists before the term is created (subterms come first)"); }
  struct PTRef r; r.x = (t_u32)g_nterms; g_nterms++; g_new_calls++; return r; }
t_bool PtStore__hasCtermKey(void *self, struct SymRef *s) { t_u32 a[3] = {0, 0, 0}; return tab_find(MAP_CTERM, s->x, 0, a) >= 0; }
struct PTRef PtStore__getFromCtermMap(void *self, struct SymRef *s) { t_u32 a[3] = {0, 0, 0}; t_int i = tab_find(MAP_CTERM, s->x, 0, a); __CPROVER_assert(i >= 0, "map read after a positive membership test"); struct PTRef r; r.x = g_tab[i >= 0 ? i : 0].term; return r; }
void PtStore__addToCtermMap(void *self, struct SymRef *s, struct PTRef tr) { t_u32 a[3] = {0, 0, 0}; tab_add(MAP_CTERM, s->x, 0, a, tr); }
#define KEYED(MAP, has, get, add) \
t_bool has(void *self, struct PTLKey *k) { t_int n; t_u32 a[3]; key_of(k, &n, a); return tab_find(MAP, k->sym.x, n, a) >= 0; } \
struct PTRef get(void *self, struct PTLKey *k) { t_int n; t_u32 a[3]; key_of(k, &n, a); t_int i = tab_find(MAP, k->sym.x, n, a); __CPROVER_assert(i >= 0, "map read after a positive membership test"); struct PTRef r; r.x = g_tab[i >= 0 ? i : 0].term; return r; } \
void add(void *self, struct PTLKey *k, struct PTRef tr) { t_int n; t_u32 a[3]; key_of(k, &n, a); tab_add(MAP, k->sym.x, n, a, tr); }
KEYED(MAP_CPLX, PtStore__hasCplxKey, PtStore__getFromCplxMap, PtStore__addToCplxMap)
KEYED(MAP_BOOL, PtStore__hasBoolKey, PtStore__getFromBoolMap, PtStore__addToBoolMap)
/* ---- symbols ------------------------------------------------------------------------------------------------------------- */
static struct symdesc *sd(void *self) { return (struct symdesc *)self; }
struct Symbol *SymStore__op_index__SymRef(void *self, struct SymRef s) { __CPROVER_assert(s.x < NSYM, "a declared symbol"); return (struct Symbol *)&h_sym[s.x < NSYM ? s.x : 0]; }
t_bool Symbol__left_assoc(void *self) { return sd(self)->left_assoc; }
t_bool Symbol__right_assoc(void *self) { return sd(self)->right_assoc; }
t_bool Symbol__chainable(void *self) { return sd(self)->chainable; }
t_bool Symbol__pairwise(void *self) { return sd(self)->pairwise; }
t_bool Symbol__commutes(void *self) { return sd(self)->commutes; }
t_u32 Symbol__nargs(void *self) { return sd(self)->nargs; }
t_bool Logic__isBooleanOperator__SymRef(void *self, struct SymRef s) { __CPROVER_assert(s.x < NSYM, "a declared symbol"); return h_sym[s.x < NSYM ? s.x : 0].boolop; }
t_bool Logic__typeCheck(void *self, struct SymRef s, struct vec_PTRef *args, struct osmt_string *why) { return 1; }
/* Logic::termSort: one canonical order (ascending reference), at most three elements */
void Logic__termSort(void *self, struct vec_PTRef *v) { t_int n = v->sz; __CPROVER_assert(n >= 0 && n <= 3, "at most three elements (arena bound)");
  for (int pass = 0; pass < 3; pass++) for (int i = 0; i + 1 < 3; i++) if (i + 1 < n && v->data[i].x > v->data[i + 1].x) { struct PTRef t = v->data[i]; v->data[i] = v->data[i + 1]; v->data[i + 1] = t; } }
/* ---- plumbing -------------------------------------------------------------------------------------------------------------- */
#define VCAP 4
static struct PTRef h_pt_pool[8][VCAP]; static int h_pt_blocks;
void vec_PTRef__capacity__int(struct vec_PTRef *self, t_int min_cap) { __CPROVER_assert(min_cap <= VCAP, "vector within the arena bound");
  if (self->data == (struct PTRef *)0) { __CPROVER_assert(h_pt_blocks < 8, "pool has a block left"); self->data = h_pt_pool[h_pt_blocks < 8 ? h_pt_blocks : 0]; h_pt_blocks++; } self->cap = VCAP; }
void free(void *p) { }
void PTRef__dtor(void *self) { }
void std_basic_string_char__ctor(struct osmt_string *s) { s->p = (t_char *)0; s->n = 0; }
#endif
