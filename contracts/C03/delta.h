/* C03 (mechanism "concrete LRA values with a safe delta") -- Simplex::computeDelta.
 * The Simplex model holds values and bounds in Q_delta: a pair (c, k) stands for c + k*delta for an infinitesimal delta > 0; a
 * strict bound x > c is the lower bound (c, 1), x < c the upper bound (c, -1).  computeDelta must return a CONCRETE delta > 0
 * such that the concrete value  x* = val.R + delta * val.D  of every variable satisfies the ORIGINAL bounds:
 *      lower (c, 0):  x* >= c      lower (c, 1):  x* > c      upper (c, 0):  x* <= c      upper (c, -1):  x* < c
 * given that the model is inside its bounds in Q_delta (lexicographic order) -- Simplex's invariant, the precondition here.
 * Real width.  FastRational subtraction / division / comparison are BY CONTRACT (exact rational value; C15 discharges that on the
 * real code); model values are drawn from a small set of rationals (the "small alphabet" that makes the instance tractable). */
#ifndef C03_DELTA_H
#define C03_DELTA_H
#include "../C15/fr_R.h"
t_bool nondet_bool(void); t_uchar nondet_uchar(void);
#ifndef NV
#define NV 2
#endif
#define ITER x___gnu_cxx____normal_iterator_LVRef_P_std_vector_LVRef
typedef long long big;    /* values of the harness alphabet are small: 64 bits never wrap (obligation in fr_spec) */
t_int h_nv;
struct LVRef h_v[NV]; struct Delta h_val[NV], h_lb[NV], h_ub[NV]; t_bool h_haslb[NV], h_hasub[NV];
struct LRAModel h_model; struct LAVarStore h_store;
struct LRAModel *std_unique_ptr_LRAModel__op_arrow(x_std_unique_ptr_LRAModel *self) { return &h_model; }
struct LAVarStore *LABoundStore__getVarStore(void *self) { return &h_store; }
ITER std_vector_LVRef__begin(void *self) { ITER i; i.idx = 0; return i; }
ITER std_vector_LVRef__end(void *self) { ITER i; i.idx = h_nv; return i; }
ITER std_vector_LVRef__cbegin(void *self) { return std_vector_LVRef__begin(self); }
ITER std_vector_LVRef__cend(void *self) { return std_vector_LVRef__end(self); }
t_bool op_eq____normal_iterator_LVRef_P_std_vector_LVRef_R___normal_iterator_LVRef_P_std_vector_LVRef_R(ITER *a, ITER *b) { return a->idx == b->idx; }
ITER *__gnu_cxx____normal_iterator_LVRef_P_std_vector_LVRef__op_inc(ITER *self) { __CPROVER_assert(self->idx < h_nv, "iterator incremented inside the variable store"); self->idx++; return self; }
struct LVRef *__gnu_cxx____normal_iterator_LVRef_P_std_vector_LVRef__op_mul(ITER *self) { __CPROVER_assert(self->idx >= 0 && self->idx < h_nv, "iterator dereferenced inside the variable store"); return &h_v[self->idx < NV && self->idx >= 0 ? self->idx : 0]; }
#define IDX(v) ((v).x < NV ? (v).x : 0)
t_bool Simplex__isModelOutOfBounds(void *self, struct LVRef v) { return 0; }       /* precondition of computeDelta, stated by the harness in full */
struct Delta *LRAModel__read(void *self, struct LVRef *v) { return &h_val[IDX(*v)]; }
struct Delta *LRAModel__Lb(void *self, struct LVRef v) { __CPROVER_assert(h_haslb[IDX(v)], "a lower bound is read only if there is one"); return &h_lb[IDX(v)]; }
struct Delta *LRAModel__Ub(void *self, struct LVRef v) { __CPROVER_assert(h_hasub[IDX(v)], "an upper bound is read only if there is one"); return &h_ub[IDX(v)]; }
t_bool LRAModel__hasLBound(void *self, struct LVRef v) { return h_haslb[IDX(v)]; }
t_bool LRAModel__hasUBound(void *self, struct LVRef v) { return h_hasub[IDX(v)]; }
/* ---- FastRational arithmetic by contract: exact value, any representation of it with a positive denominator ------------------------------------ */
#define QN(x) ((big)(x)->num)
#define QD(x) ((big)(x)->den)
#define OPND(x) __CPROVER_assert(FR_WORD(x) && (x)->den >= 1, "harness bound: machine-word operands")
static void fr_spec(struct FastRational *dst, big n, big d) {      /* dst := n/d (d > 0) in lowest terms, as FastRational keeps it */
  __CPROVER_assert(d > 0 && d < 1000000 && n > -1000000 && n < 1000000, "harness bound: intermediate values stay small");
  t_int a = (t_int)(n < 0 ? -n : n), b = (t_int)d;
  for (int i = 0; i < 24; i++) { if (b == 0) break; t_int t = a % b; a = b; b = t; }      /* Euclid; a = gcd(|n|, d) >= 1 */
  if (a == 0) a = 1;
  dst->state = 1; dst->mpq = (mpq_ptr)0; dst->num = (t_word)(n / a); dst->den = (t_uword)(d / a); }
void subtraction(struct FastRational *dst, struct FastRational *a, struct FastRational *b) { OPND(a); OPND(b); fr_spec(dst, QN(a) * QD(b) - QN(b) * QD(a), QD(a) * QD(b)); }
void division(struct FastRational *dst, struct FastRational *a, struct FastRational *b) { OPND(a); OPND(b); __CPROVER_assert(QN(b) != 0, "division by a non-zero rational");
  big n = QN(a) * QD(b), d = QD(a) * QN(b); if (d < 0) { n = -n; d = -d; } if (d == 0) d = 1; fr_spec(dst, n, d); }
t_int FastRational__compare__FastRational_R(struct FastRational *a, struct FastRational *b) { OPND(a); OPND(b); big l = QN(a) * QD(b), r = QN(b) * QD(a); return l < r ? -1 : (l > r ? 1 : 0); }
t_bool FastRational__op_eq(struct FastRational *a, struct FastRational *b) { OPND(a); OPND(b); return QN(a) * QD(b) == QN(b) * QD(a); }
#endif
