#ifndef C03_TYPES_H
#define C03_TYPES_H
typedef struct { char __o; } x_std_unique_ptr_LRAModel;
typedef struct { t_int idx; } x___gnu_cxx____normal_iterator_LVRef_P_std_vector_LVRef;
typedef x___gnu_cxx____normal_iterator_LVRef_P_std_vector_LVRef x___normal_iterator_LVRef_P_std_vector_LVRef;
typedef struct { char __o; } x_std_vector_LVRef;
#endif
