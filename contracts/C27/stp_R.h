/* C27 / C02 -- contracts of the difference-logic number types (SafeInt, Converter<SafeInt>, Converter<Delta>) at real width.
 * Loop-free 64-bit integer code: complete proofs.  Postconditions from the property statements:
 *   SafeInt arithmetic: the exact sum / difference, or an exception -- never a wrapped value;
 *   Converter<T>::negate(c): for EVERY integer t,  not(t <= c)  <=>  (-t <= negate(c))   (t is a ghost integer);
 *   Converter<SafeInt>::getValue(v): the exact integer value of v whatever its magnitude, or an exception.
 */
#ifndef STP_R_H
#define STP_R_H
#include "../C15/fr_R.h"
typedef __int128 i128;
#define RETV __CPROVER_return_value
t_long g_t;                       /* ghost: an arbitrary integer, fixed before the call */
#define PMAX 9223372036854775807l
#define PMIN (-9223372036854775807l - 1l)

#define OSMT_CONTRACT_SafeInt__op_plus \
  __CPROVER_requires(__CPROVER_is_fresh(self, sizeof(*self)) && __osmt_thrown == 0) \
  __CPROVER_assigns(__osmt_thrown) \
  __CPROVER_ensures(__osmt_thrown == 0 ==> (i128)RETV.val == (i128)self->val + (i128)other.val) \
  __CPROVER_ensures(__osmt_thrown != 0 ==> ((i128)self->val + (i128)other.val > (i128)PMAX || (i128)self->val + (i128)other.val < (i128)PMIN)) \
  __CPROVER_ensures(self->val == __CPROVER_old(self->val))
#define OSMT_CONTRACT_SafeInt__op_minuseq \
  __CPROVER_requires(__CPROVER_is_fresh(self, sizeof(*self)) && __osmt_thrown == 0) \
  __CPROVER_assigns(__osmt_thrown, self->val) \
  __CPROVER_ensures(__osmt_thrown == 0 ==> (i128)self->val == (i128)__CPROVER_old(self->val) - (i128)other.val) \
  __CPROVER_ensures(__osmt_thrown != 0 ==> (self->val == __CPROVER_old(self->val) && ((i128)self->val - (i128)other.val > (i128)PMAX || (i128)self->val - (i128)other.val < (i128)PMIN)))
t_bool pad0, pad1, pad2, pad3, pad4, pad5, pad6, pad7;
#define OSMT_CONTRACT_SafeInt__op_minus__SafeInt \
  __CPROVER_requires(__CPROVER_is_fresh(self, sizeof(*self)) && __osmt_thrown == 0) \
  __CPROVER_assigns(__osmt_thrown, pad0, pad1, pad2, pad3, pad4, pad5, pad6, pad7) \
  __CPROVER_ensures(__osmt_thrown == 0 ==> (i128)RETV.val == (i128)self->val - (i128)other.val) \
  __CPROVER_ensures(__osmt_thrown != 0 ==> ((i128)self->val - (i128)other.val > (i128)PMAX || (i128)self->val - (i128)other.val < (i128)PMIN))
/* unary minus: the exact negation, or an exception at PTRDIFF_MIN */
#define OSMT_CONTRACT_SafeInt__op_minus__void \
  __CPROVER_requires(__CPROVER_is_fresh(self, sizeof(*self)) && __osmt_thrown == 0) \
  __CPROVER_assigns(__osmt_thrown) \
  __CPROVER_ensures(__osmt_thrown == 0 ==> (i128)RETV.val == -(i128)self->val) \
  __CPROVER_ensures(__osmt_thrown != 0 ==> self->val == PMIN)
/* negate(c): for every integer t (ghost g_t):  not(t <= c)  <=>  (-t <= negate(c));  equivalently negate(c) == -(c+1).
   Where -(c+1) is not representable (c == PTRDIFF_MAX gives PTRDIFF_MIN, representable; c+1 itself is not) an exception is allowed. */
#define OSMT_CONTRACT_Converter_SafeInt__negate \
  __CPROVER_requires(__CPROVER_is_fresh(val, sizeof(*val)) && __osmt_thrown == 0) \
  __CPROVER_assigns(__osmt_thrown) \
  __CPROVER_ensures(__osmt_thrown == 0 ==> ((g_t > val->val) == (-(i128)g_t <= (i128)RETV.val))) \
  __CPROVER_ensures(__osmt_thrown == 0 ==> (i128)RETV.val == -((i128)val->val + 1)) \
  __CPROVER_ensures(__osmt_thrown != 0 ==> val->val == PMAX)
#define OSMT_CONTRACT_Converter_SafeInt__getValue__ptrdiff_t \
  __CPROVER_assigns() __CPROVER_ensures(RETV.val == val)
/* Converter<Delta>::negate(c): not(x <= c) <=> -x <= -c - delta, i.e. the pair (-c, -1) */
#define OSMT_CONTRACT_Converter_Delta__negate \
  __CPROVER_requires(__CPROVER_is_fresh(val, sizeof(*val))) \
  __CPROVER_requires(FR_MPQMEM(&val->r) ? __CPROVER_is_fresh(val->r.mpq, sizeof(__mpq_struct)) : (val->r.mpq == (mpq_ptr)0)) \
  __CPROVER_requires(FRV_WF_R(val->r) && FR_WORD(&val->d) && val->d.num == 0 && val->d.den == 1 && val->d.state == 1 && !g_gmp_arith && g_last_gcd32 == 0 && !rp_done) \
  __CPROVER_assigns(val->r.state, val->r.mpq, GHOST_FRAME) __CPROVER_assigns(FR_MPQMEM(&val->r): *(val->r.mpq)) \
  FRV_WF_ENS(RETV.r) \
  __CPROVER_ensures(FR_WORD(&RETV.d) && RETV.d.num == -1 && RETV.d.den == 1) \
  __CPROVER_ensures(FRV_SIGN(RETV.r) == -FR_SIGN(&val->r)) \
  __CPROVER_ensures((FR_WORD(&val->r) && val->r.num != (-2147483647 - 1) && g_last_gcd32 <= 1) ==> (FR_WORD(&RETV.r) && RETV.r.num == -val->r.num && RETV.r.den == val->r.den))
#endif
