/* C27 -- constant folding of div and mod in ArithLogic::mkIntDiv / ArithLogic::mkMod (S tier, bounded).
 * The two functions are lowered whole; the Logic API they call is replaced by the stubs below, which hand out two
 * harness-chosen integer constants and RECORD the number the function folds to.  The contract speaks only about numbers:
 * SMT-LIB Euclidean semantics  a = q*d + r,  0 <= r < |d|,  for either sign of the divisor. */
#ifndef ARITH_S_H
#define ARITH_S_H
#include "../C15/fr_S.h"
struct FastRational h_dividend, h_divisor;          /* the constants behind PTRef{0} and PTRef{1} */
wide g_res; t_bool g_res_set; t_bool g_res_is_int;  /* ghost: the folded result */
t_bool g_symbolic;                                  /* ghost: the function built an uninterpreted term instead of folding */
static struct FastRational *h_val(struct PTRef t) { return t.x == 0 ? &h_dividend : &h_divisor; }
t_bool Logic__isConstant__PTRef(void *self, struct PTRef t) { return 1; }
t_bool ArithLogic__isNumConst__PTRef(void *self, struct PTRef t) { return 1; }
struct FastRational *ArithLogic__getNumConst(void *self, struct PTRef t) { return h_val(t); }
t_bool ArithLogic__isZero__PTRef(void *self, struct PTRef t) { return VN(h_val(t)) == 0; }
t_bool ArithLogic__isOne(void *self, struct PTRef t) { return VN(h_val(t)) == 1 && VD(h_val(t)) == 1; }
t_bool ArithLogic__isMinusOne(void *self, struct PTRef t) { return VN(h_val(t)) == -1 && VD(h_val(t)) == 1; }
void ArithLogic__checkSortInt__vec_PTRef_R(void *self, struct vec_PTRef *a) { }
struct PTRef ArithLogic__mkIntConst(void *self, struct FastRational *v) {
  s_check(v, "folded constant"); g_res = VN(v); g_res_is_int = (VD(v) == 1); g_res_set = 1; struct PTRef r; r.x = 7; return r; }
struct PTRef ArithLogic__getTerm_IntZero(void *self) { g_res = 0; g_res_is_int = 1; g_res_set = 1; struct PTRef r; r.x = 7; return r; }
struct PTRef ArithLogic__mkNeg(void *self, struct PTRef t) { g_res = -VN(h_val(t)); g_res_is_int = (VD(h_val(t)) == 1); g_res_set = 1; struct PTRef r; r.x = 7; return r; }
struct PTRef Logic__mkFun(void *self, struct SymRef s, struct vec_PTRef *a) { g_symbolic = 1; struct PTRef r; r.x = 7; return r; }
void vec_PTRef__ctor__std_initializer_list_PTRef_R(struct vec_PTRef *v, struct osmt_ilist *l) { v->data = (struct PTRef *)l->p; v->sz = (t_int)l->n; v->cap = (t_int)l->n; }
void FastRational__ctor____mpz_struct_P(struct FastRational *self, __mpz_struct *z);
#define ARITH_HARNESS(FN, POST) \
void harness(void) { \
  s_make(&h_dividend); s_make(&h_divisor); \
  __CPROVER_assume(FR_WORD(&h_dividend) && FR_WORD(&h_divisor) && h_dividend.den == 1 && h_divisor.den == 1); \
  wide a = VN(&h_dividend), d = VN(&h_divisor); \
  struct PTRef arr[2]; arr[0].x = 0; arr[1].x = 1; struct vec_PTRef args; args.data = arr; args.sz = 2; args.cap = 2; \
  __osmt_thrown = 0; g_res_set = 0; g_symbolic = 0; \
  struct PTRef r = FN((struct ArithLogic *)0, &args); \
  __CPROVER_assume(!g_gmp_arith); \
  if (d == 0) { __CPROVER_assert(__osmt_thrown == OSMT_EXC_ArithDivisionByZeroException, "division by zero is rejected with ArithDivisionByZeroException"); } \
  else { \
    __CPROVER_assert(__osmt_thrown == 0, "constant operands with a non-zero divisor are accepted"); \
    __CPROVER_assert(!g_symbolic, "two constants are folded, not left symbolic"); \
    wide q, m; POST \
    __CPROVER_assert(a == q * d + m, "Euclidean: a == (div a d) * d + (mod a d)"); \
    __CPROVER_assert(m >= 0 && m < sp_abs(d), "Euclidean: 0 <= (mod a d) < |d|, for either sign of d"); \
  } \
  OSMT_REACH("return"); \
}
#endif
