#ifndef C22_TYPES_H
#define C22_TYPES_H
typedef struct { char __o; } nat_set;
#endif
