/* C22 (mechanism "LA undo") -- LRAModel's bound stacks: pushBound / pushBacktrackPoint / popBacktrackPoint (popBounds).
 * View: per variable and bound kind a stack of active bounds (the top is the bound the Simplex reads).  The reference model
 * below is the obvious one -- push on pushBound, remember the sizes on pushBacktrackPoint, truncate on popBacktrackPoint --
 * and after EVERY operation of an arbitrary operation sequence the real structure must equal it: bounds that were asserted
 * and retracted leave no trace, and nothing else is lost. */
#ifndef C22_LRAMODEL_H
#define C22_LRAMODEL_H
t_bool nondet_bool(void); t_uchar nondet_uchar(void); int __osmt_thrown;
#define NVAR 2
#define NB 6
#define DEPTH 8
struct LABound h_b[NB];
struct LRAModel h_m; struct vec_LABoundRef h_lbs[NVAR], h_ubs[NVAR];
struct LABound *LABoundStore__op_index__LABoundRef(void *self, struct LABoundRef r) { __CPROVER_assert(r.x < NB, "a bound of the bound store"); return &h_b[r.x < NB ? r.x : 0]; }
struct vec_LABoundRef *std_vector_vec_LABoundRef__op_index(void *self, t_ulong i) {
  __CPROVER_assert(self == (void *)&h_m.int_lbounds || self == (void *)&h_m.int_ubounds, "one of the model's two bound tables");
  __CPROVER_assert(i < NVAR, "a variable of the model"); return self == (void *)&h_m.int_lbounds ? &h_lbs[i < NVAR ? i : 0] : &h_ubs[i < NVAR ? i : 0]; }
/* vec<T> storage: typed pool blocks, growing keeps block and contents */
#define VCAP 8
static struct LABoundRef h_br_pool[8][VCAP]; static int h_br_blocks;
void vec_LABoundRef__capacity__int(struct vec_LABoundRef *self, t_int min_cap) { __CPROVER_assert(min_cap <= VCAP, "vector within the bound of the harness");
  if (self->data == (struct LABoundRef *)0) { __CPROVER_assert(h_br_blocks < 8, "pool has a block left"); self->data = h_br_pool[h_br_blocks < 8 ? h_br_blocks : 0]; h_br_blocks++; } self->cap = VCAP; }
static t_int h_int_pool[2][VCAP]; static int h_int_blocks;
void vec_int__capacity__int(struct vec_int *self, t_int min_cap) { __CPROVER_assert(min_cap <= VCAP, "vector within the bound of the harness");
  if (self->data == (t_int *)0) { __CPROVER_assert(h_int_blocks < 2, "pool has a block left"); self->data = h_int_pool[h_int_blocks < 2 ? h_int_blocks : 0]; h_int_blocks++; } self->cap = VCAP; }
void LABoundRef__dtor(void *self) { }
/* ---- reference model ------------------------------------------------------------------------------------------------------ */
t_u32 g_st[NVAR][2][DEPTH]; t_int g_sz[NVAR][2];        /* [var][0 = lower, 1 = upper] */
t_int g_saved[DEPTH][NVAR][2]; t_int g_level;
#endif
