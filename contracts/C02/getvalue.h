/* C02 (clause "numeric constants are handled exactly whatever their magnitude") -- Converter<SafeInt>::getValue(Number):
 * the result is the exact integer value of the constant, or an exception when it does not fit the number type.
 * GMP's C++ wrappers are stubs over the ghost value identities of stubs/gmp_R.h: getMpq() yields the operand's value,
 * get_num() its numerator, fits_slong_p()/get_si() answer from the ghost (g_fl: "the value fits a long and is g_val"). */
#ifndef GETVALUE_H
#define GETVALUE_H
#include "../C15/fr_R.h"
mpq_class FastRational__getMpq(void *self) {
  struct FastRational *x = (struct FastRational *)self; mpq_class r;
  r.q._mp_num.g_init = 1; r.q._mp_num.g_set = 1; r.q._mp_den.g_init = 1; r.q._mp_den.g_set = 1;
  if (FR_WORD(x)) { r.q._mp_num.g_fl = 1; r.q._mp_num.g_val = (t_long)x->num; r.q._mp_den.g_fl = 1; r.q._mp_den.g_val = (t_long)x->den; }
  else { __CPROVER_assert(FR_MPQVAL(x), "getMpq reads a valid representation"); r.q._mp_num.g_fl = x->mpq->_mp_num.g_fl; r.q._mp_num.g_val = x->mpq->_mp_num.g_val; r.q._mp_den.g_fl = x->mpq->_mp_den.g_fl; r.q._mp_den.g_val = x->mpq->_mp_den.g_val; }
  return r; }
x___gmp_expr_mpz_t_mpz_t *__gmp_expr_mpq_t_mpq_t__get_num(void *self, ...) { return (x___gmp_expr_mpz_t_mpz_t *)&((mpq_class *)self)->q._mp_num; }
void __gmp_expr_mpz_t_mpz_t__ctor__gmp_expr_mpz_t_mpz_t_R(x___gmp_expr_mpz_t_mpz_t *self, x___gmp_expr_mpz_t_mpz_t *o) { self->z = o->z; }
t_bool __gmp_expr_mpz_t_mpz_t__fits_slong_p(void *self, ...) { return ((x___gmp_expr_mpz_t_mpz_t *)self)->z.g_fl; }
t_long __gmp_expr_mpz_t_mpz_t__get_si(void *self, ...) { __mpz_struct *z = &((x___gmp_expr_mpz_t_mpz_t *)self)->z; if (z->g_fl) return z->g_val; return nondet_long(); }
#define OSMT_CONTRACT_Converter_SafeInt__getValue__Number_R \
  FR_OPERAND(val) __CPROVER_requires(FR_INT(val) && __osmt_thrown == 0) \
  __CPROVER_assigns(__osmt_thrown, RP_GHOSTS) \
  /* exact: the word numerator itself, or GMP's value when it fits a long */ \
  __CPROVER_ensures((__osmt_thrown == 0 && FR_WORD(val)) ==> __CPROVER_return_value.val == (t_long)val->num) \
  __CPROVER_ensures((__osmt_thrown == 0 && !FR_WORD(val)) ==> (val->mpq->_mp_num.g_fl && __CPROVER_return_value.val == val->mpq->_mp_num.g_val)) \
  /* an exception only for a value that does not fit */ \
  __CPROVER_ensures(__osmt_thrown != 0 ==> (!FR_WORD(val) && !val->mpq->_mp_num.g_fl)) \
  __CPROVER_ensures(val->num == __CPROVER_old(val->num) && val->den == __CPROVER_old(val->den) && val->state == __CPROVER_old(val->state))
#endif
