/* C02 (clause "integer variables get integral values") -- LASolver::checkIntegersAndSplit, UNBOUNDED in the number of integer variables:
 * loop contract on the loop over int_vars; the vector is a real array of up to 1024 variables whose contents are arbitrary except for one
 * symbolic cell (ghost index g_k).  The split construction after the loop is by stubs here (its arithmetic is decided by the bounded job). */
#ifndef LIA_UNB_H
#define LIA_UNB_H
#include "../C15/fr_R.h"
t_bool nondet_bool(void); t_u32 nondet_u32(void); t_int nondet_int(void);
#define MAXV 1024
struct LVRef h_vars[MAXV]; t_int h_n; t_int g_k; t_u32 h_cellvar; t_bool h_cell_integral;
t_bool g_any_nonint;            /* some isModelInteger answer was "no" */
t_bool g_cell_asked;
t_bool LASolver__isModelInteger(void *self, struct LVRef v) { t_bool r = (v.x == h_cellvar) ? h_cell_integral : nondet_bool(); if (v.x == h_cellvar) g_cell_asked = 1; if (!r) g_any_nonint = 1; return r; }
t_int g_status; t_int g_pushed_vars;
t_bool LASolver__setStatus(void *self, t_uint st) { g_status = (t_int)st; return 1; }
t_bool LASolver__shouldTryCutFromProof(void *self) { return nondet_bool(); }
t_int h_cut; t_int LASolver__cutFromProof(void *self) { return h_cut; }
struct LVRef LASolver__splitOnRandom(void *self, struct vec_LVRef *vs) { __CPROVER_assert(vs->sz > 0, "a split needs a candidate"); struct LVRef r; r.x = h_cellvar; return r; }
struct PTRef LASolver__getVarPTRef(void *self, struct LVRef v) { struct PTRef r; r.x = 1; return r; }
struct Delta h_delta; struct Delta Simplex__getValuation(void *self, struct LVRef v) { return h_delta; }
struct Delta *Simplex__Lb(void *self, struct LVRef v) { return &h_delta; }
struct Delta *Simplex__Ub(void *self, struct LVRef v) { return &h_delta; }
t_bool Simplex__hasLBound(void *self, struct LVRef v) { return 0; }
t_bool Simplex__hasUBound(void *self, struct LVRef v) { return 0; }
struct FastRational FastRational__floor(struct FastRational *x) { return *x; }                                    /* values: bounded job */
struct FastRational FastRational__op_plus(struct FastRational *a, struct FastRational *b) { return *a; }
void FastRational__ctor__word(struct FastRational *self, t_word v) { self->state = 1; self->num = v; self->den = 1; self->mpq = (mpq_ptr)0; }
struct PTRef ArithLogic__mkIntConst(void *self, struct FastRational *v) { struct PTRef r; r.x = 2; return r; }
struct PTRef ArithLogic__mkLeq__PTRef_PTRef(void *self, struct PTRef a, struct PTRef b) { struct PTRef r; r.x = 3; return r; }
struct PTRef ArithLogic__mkGeq__PTRef_PTRef(void *self, struct PTRef a, struct PTRef b) { struct PTRef r; r.x = 4; return r; }
struct PTRef Logic__mkOr__PTRef_PTRef(void *self, struct PTRef a, struct PTRef b) { struct PTRef r; r.x = 5; return r; }
t_int g_splits; void vec_PTRef__push__PTRef_R(struct vec_PTRef *self, struct PTRef *e) { g_splits = 1; }
/* the candidate vector: only its size matters here */
void vec_LVRef__capacity__int(struct vec_LVRef *self, t_int min_cap) { }
void vec_LVRef__push__LVRef_R(struct vec_LVRef *self, struct LVRef *e) { if (self->sz < 2) self->sz++; }      /* saturating count: 0, 1, "more" */
#define OSMT_LOOP_LASolver__checkIntegersAndSplit_1 \
  __CPROVER_assigns(__begin1, varsToFix.sz, g_any_nonint, g_cell_asked, OSMT_TEMPS_LASolver__checkIntegersAndSplit) \
  __CPROVER_loop_invariant(__CPROVER_same_object(__begin1, h_vars) && __CPROVER_POINTER_OFFSET(__begin1) % sizeof(struct LVRef) == 0 \
     && __CPROVER_POINTER_OFFSET(__begin1) <= (__CPROVER_size_t)h_n * sizeof(struct LVRef) && __end1 == &h_vars[h_n] \
     && varsToFix.sz >= 0 && varsToFix.sz <= 2 && ((varsToFix.sz > 0) == g_any_nonint) && ((g_cell_asked && !h_cell_integral) ==> g_any_nonint) \
     && ((__CPROVER_POINTER_OFFSET(__begin1) > (__CPROVER_size_t)g_k * sizeof(struct LVRef)) ==> g_cell_asked)) \
  __CPROVER_decreases((__CPROVER_size_t)h_n * sizeof(struct LVRef) - __CPROVER_POINTER_OFFSET(__begin1))
#endif
