/* C02 (clause "integer variables get integral values") -- LASolver::checkIntegersAndSplit and LASolver::isModelInteger.
 * The complete LIA check answers SAT exactly when every integer variable has an integral value in the current Simplex
 * model; otherwise it goes on to cuts / branching.  The Simplex model and the split construction are stubs. */
#ifndef LIA_H
#define LIA_H
#include "../C15/fr_S.h"
#define NV 3
t_bool h_integral[NV];         /* harness: is the value of variable k integral? */
t_int g_asked[NV];             /* ghost: how often isModelInteger was asked about variable k */
t_bool LASolver__isModelInteger(void *self, struct LVRef v) { __CPROVER_assert(v.x < NV, "a declared integer variable"); g_asked[v.x < NV ? v.x : 0]++; return h_integral[v.x < NV ? v.x : 0]; }
t_int g_status = -1; t_bool g_split; t_int g_pushed;
t_bool LASolver__setStatus(void *self, t_uint st) { g_status = (t_int)st; return 1; }
t_bool LASolver__shouldTryCutFromProof(void *self) { return nondet_bool(); }
t_int h_cut;                     /* what cutFromProof answers */
t_int LASolver__cutFromProof(void *self) { return h_cut; }
struct LVRef LASolver__splitOnRandom(void *self, struct vec_LVRef *vs) {
  __CPROVER_assert(vs->sz > 0, "a split needs a candidate");
  for (int j = 0; j < NV; j++) if (j < vs->sz) __CPROVER_assert(vs->data[j].x < NV && !h_integral[vs->data[j].x < NV ? vs->data[j].x : 0], "every branching candidate is an integer variable with a non-integral value");
  g_split = 1; return vs->data[0]; }
struct PTRef LASolver__getVarPTRef(void *self, struct LVRef v) { struct PTRef r; r.x = 1; return r; }
struct Delta h_delta;            /* the Simplex value of the chosen variable */
struct Delta Simplex__getValuation(void *self, struct LVRef v) { return h_delta; }
struct Delta *Simplex__Lb(void *self, struct LVRef v) { return &h_delta; }
struct Delta *Simplex__Ub(void *self, struct LVRef v) { return &h_delta; }
t_bool Simplex__hasLBound(void *self, struct LVRef v) { return 0; }
t_bool Simplex__hasUBound(void *self, struct LVRef v) { return 0; }
wide g_c[2]; t_int g_nc;         /* ghost: the integer constants the split is built from */
struct PTRef ArithLogic__mkIntConst(void *self, struct FastRational *v) { __CPROVER_assert(VD(v) == 1, "split constants are integers"); if (g_nc < 2) g_c[g_nc] = VN(v); g_nc++; struct PTRef r; r.x = (t_u32)(9 + g_nc); return r; }
t_u32 g_leq_c, g_geq_c;
struct PTRef ArithLogic__mkLeq__PTRef_PTRef(void *self, struct PTRef a, struct PTRef b) { __CPROVER_assert(a.x == 1, "upper branch bounds the chosen variable"); g_leq_c = b.x; struct PTRef r; r.x = 3; return r; }
struct PTRef ArithLogic__mkGeq__PTRef_PTRef(void *self, struct PTRef a, struct PTRef b) { __CPROVER_assert(a.x == 1, "lower branch bounds the chosen variable"); g_geq_c = b.x; struct PTRef r; r.x = 4; return r; }
struct PTRef Logic__mkOr__PTRef_PTRef(void *self, struct PTRef a, struct PTRef b) { __CPROVER_assert((a.x == 3 && b.x == 4) || (a.x == 4 && b.x == 3), "the split is the disjunction of the two branches"); struct PTRef r; r.x = 5; return r; }
/* vec<T>::capacity / push of the containers involved (assumed container contracts; at most NV elements here) */
static struct LVRef h_store[NV];   /* a static array: sizeof of a struct of scaled-width bit-vectors is not a byte multiple */
void vec_LVRef__capacity__int(struct vec_LVRef *self, t_int min_cap) { __CPROVER_assert(min_cap <= NV, "no more candidates than integer variables");
  if (self->cap < min_cap || self->data == (struct LVRef *)0) { self->data = h_store; self->cap = NV; } }
void vec_PTRef__push__PTRef_R(struct vec_PTRef *self, struct PTRef *e) { __CPROVER_assert(e->x == 5, "the recorded split is the disjunction"); g_pushed++; }
void FastRational__ctor____mpz_struct_P(struct FastRational *self, __mpz_struct *z);
#endif
