/* C17 (partial: symbol names) -- Logic::protectName / hasQuotableChars / isReservedWord.
 * Contract, from the property: what protectName prints for a user symbol `name` lexes back, with the repository's own
 * lexer (smt2newlexer.ll), to exactly one symbol token whose value is `name`.  Bounded: names of at most OSMT_N bytes plus
 * every keyword of the lexer.  std::string / std::unordered_set are stubs with their standard contracts over
 * {pointer, length}; tokens::tokenNames comes from the AST initialiser (TAB_g_tokens__tokenNames, generated per run);
 * the lexer keyword list LEX_KW comes from the .ll file (generated per run). */
#ifndef PROTECT_H
#define PROTECT_H
#ifdef OSMT_GEN_INCLUDE
#include OSMT_GEN_INCLUDE
#endif
t_char nondet_char(void); t_bool nondet_bool(void); int __osmt_thrown;
void *malloc(__CPROVER_size_t);
#ifndef OSMT_N
#define OSMT_N 4
#endif
#define SMAX (OSMT_N + 24)
#define OSMT_EXT_npos 18446744073709551615ul
/* ---- std::string ---------------------------------------------------------------------------------------------- */
static int slen(const char *s) { int n = 0; while (n < SMAX && s[n]) n++; return n; }
t_bool std_basic_string_char__empty(void *self, ...) { return ((struct osmt_string *)self)->n == 0; }
t_char *std_basic_string_char__front(void *self, ...) { struct osmt_string *s = self; __CPROVER_assert(s->n > 0, "front() of a non-empty string"); return &s->p[0]; }
t_char *std_basic_string_char__back(void *self, ...) { struct osmt_string *s = self; __CPROVER_assert(s->n > 0, "back() of a non-empty string"); return &s->p[s->n - 1]; }
t_char std_basic_string_char__op_index(void *self, t_ulong i) { struct osmt_string *s = self; __CPROVER_assert(i <= s->n, "string index within size"); return s->p[i]; }
t_ulong std_basic_string_char__find_first_not_of(void *self, const char *set) { struct osmt_string *s = self;
  for (t_ulong i = 0; i < s->n && i < SMAX; i++) { t_bool in = 0; for (int k = 0; k < 100 && set[k]; k++) if (set[k] == s->p[i]) in = 1; if (!in) return i; }
  return OSMT_EXT_npos; }
void std_basic_string_char__ctor__std_basic_string_char_R(struct osmt_string *self, struct osmt_string *o) { self->p = o->p; self->n = o->n; }
struct osmt_string op_plus__char_string_R(t_char c, struct osmt_string *s) {
  struct osmt_string r; r.n = s->n + 1; r.p = malloc(SMAX + 2); r.p[0] = c; for (t_ulong i = 0; i < s->n && i < SMAX; i++) r.p[i + 1] = s->p[i]; r.p[r.n] = 0; return r; }
struct osmt_string op_plus__string_RR_char(struct osmt_string *s, t_char c) {
  struct osmt_string r; r.n = s->n + 1; r.p = malloc(SMAX + 2); for (t_ulong i = 0; i < s->n && i < SMAX; i++) r.p[i] = s->p[i]; r.p[s->n] = c; r.p[r.n] = 0; return r; }
t_int isdigit(t_int c) { return c >= '0' && c <= '9'; }
static t_bool str_is(struct osmt_string *s, const char *z);
/* ---- std::unordered_set<std::string> tokens::tokenNames ---------------------------------------------------------- */
static t_bool str_is(struct osmt_string *s, const char *z) { int n = slen(z); if ((t_ulong)n != s->n) return 0; for (int i = 0; i < n; i++) if (s->p[i] != z[i]) return 0; return 1; }
t_ulong std_basic_string_char__size(void *self, ...) { return ((struct osmt_string *)self)->n; }
t_bool op_eq__string_R_char_P(struct osmt_string *a, const char *z) { return str_is(a, z); }
x_std___detail___Node_const_iterator_std_basic_string_char_true_true std_unordered_set_std_basic_string_char__find(void *self, struct osmt_string key) {
  x_std___detail___Node_const_iterator_std_basic_string_char_true_true it; it.idx = -1;
  for (int k = 0; k < TAB_g_tokens__tokenNames_n; k++) if (str_is(&key, TAB_g_tokens__tokenNames[k])) it.idx = k;
  return it; }
x_std___detail___Node_const_iterator_std_basic_string_char_true_true std_unordered_set_std_basic_string_char__end(void *self, ...) {
  x_std___detail___Node_const_iterator_std_basic_string_char_true_true it; it.idx = -1; return it; }
t_bool op_eq__std___detail___Node_iterator_base_string_true_R_std___detail___Node_iterator_base_string_true_R(x_std___detail___Node_iterator_base_std_basic_string_char_true *a, x_std___detail___Node_iterator_base_std_basic_string_char_true *b) { return a->idx == b->idx; }
/* ---- reference: does `s` lex to exactly one symbol token with value `name`?  (rules of smt2newlexer.ll) ----------- */
static t_bool sym_first(char c) { return (c >= 'a' && c <= 'z') || (c >= 'A' && c <= 'Z') || c == '~' || c == '!' || c == '@' || c == '$' || c == '%' || c == '^' || c == '&' || c == '*'
                                      || c == '-' || c == '+' || c == '=' || c == '<' || c == '>' || c == '.' || c == '?' || c == '/' || c == '\'' || c == '_'; }
static t_bool sym_rest(char c) { return sym_first(c) || (c >= '0' && c <= '9'); }
static t_bool dig(char c) { return c >= '0' && c <= '9'; }
/* TK_NUM  0|-?[1-9][0-9]*(/[1-9][0-9]*)?   and   TK_DEC  -?[0-9]+\.0*[0-9]+ : rules that precede TK_SYM and win ties */
static t_bool is_num_token(const char *s, int n) {
  int i = 0; if (n == 1 && s[0] == '0') return 1;
  if (i < n && s[i] == '-') i++;
  if (!(i < n && s[i] >= '1' && s[i] <= '9')) return 0;
  while (i < n && dig(s[i])) i++;
  if (i == n) return 1;
  if (s[i] != '/') return 0; i++;
  if (!(i < n && s[i] >= '1' && s[i] <= '9')) return 0;
  while (i < n && dig(s[i])) i++;
  return i == n; }
static t_bool is_dec_token(const char *s, int n) {
  int i = 0; if (i < n && s[i] == '-') i++;
  int a = i; while (i < n && dig(s[i])) i++; if (i == a) return 0;
  if (!(i < n && s[i] == '.')) return 0; i++;
  int b = i; while (i < n && dig(s[i])) i++; return i > b && i == n; }
static t_bool is_lex_keyword(const char *s, int n) {
  for (int k = 0; k < LEX_KW_n; k++) { int m = slen(LEX_KW[k]); if (m == n) { t_bool eq = 1; for (int i = 0; i < n; i++) if (s[i] != LEX_KW[k][i]) eq = 0; if (eq) return 1; } }
  return 0; }
static t_bool lexes_to_symbol(struct osmt_string *out, struct osmt_string *name) {
  if (out->n == name->n + 2 && out->p[0] == '|' && out->p[out->n - 1] == '|') {          /* TK_QSYM: content is everything but | and \ */
    for (t_ulong i = 0; i < name->n && i < SMAX; i++) { if (out->p[i + 1] != name->p[i]) return 0; if (name->p[i] == '|' || name->p[i] == '\\') return 0; }
    return 1; }
  if (out->n != name->n) return 0;
  for (t_ulong i = 0; i < name->n && i < SMAX; i++) if (out->p[i] != name->p[i]) return 0;
  if (out->n == 0 || !sym_first(out->p[0])) return 0;                                      /* TK_SYM over the whole string ... */
  for (t_ulong i = 1; i < out->n && i < SMAX; i++) if (!sym_rest(out->p[i])) return 0;
  if (is_lex_keyword(out->p, (int)out->n)) return 0;                                       /* ... unless an earlier rule matches the same text */
  if (is_num_token(out->p, (int)out->n) || is_dec_token(out->p, (int)out->n)) return 0;
  return 1; }
#endif
