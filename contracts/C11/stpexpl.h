/* C11 (difference logic) -- STPGraphManager<SafeInt>::findExplanation: the literals that justify a deduced edge  from -(cost)-> to.
 * A deduced difference constraint  to - from <= cost  is entailed by asserted constraints exactly when they form a path from `from` to `to`
 * whose costs sum to at most `cost`.  Obligation: the returned literals are the assignments of edges e_1 ... e_k (all asserted no later than
 * the deduced edge, none of them the deduced edge itself) that form such a path.  Bounded: graphs of 3 vertices and 4 asserted edges with costs in
 * [-3, 3] without negative cycles (consistent assertions: a potential function exists), in which some path of at most two edges entails the
 * deduced edge (it was deduced).  std::vector / std::stack / the adjacency lists are ghost arrays. */
#ifndef C11_STPEXPL_H
#define C11_STPEXPL_H
t_bool nondet_bool(void); t_uchar nondet_uchar(void); t_int nondet_int(void); int __osmt_thrown;
#define NVX 3
#define NE 3
#define E_DED NE                      /* reference of the deduced edge */
#define UNDEF_E ((t_u32)OSMT_LIM_INT32_MAX)
struct Edge_SafeInt h_edge[NE + 1];
struct STPStore_SafeInt h_store; struct STPMapper_SafeInt h_mapper;
struct Edge_SafeInt *STPStore_SafeInt__getEdge__EdgeRef(void *self, struct EdgeRef r) { __CPROVER_assert(r.x <= NE, "an edge of the store"); return &h_edge[r.x <= NE ? r.x : 0]; }
t_size STPStore_SafeInt__vertexNum(void *self) { return NVX; }
struct PtAsgn STPMapper_SafeInt__getAssignment(void *self, struct EdgeRef r) { struct PtAsgn a; if (r.x < NE) { a.tr.x = 100 + r.x; a.sgn.value = 0; } else a = g_PtAsgn_Undef; return a; }
/* visited (owner 1), adjacency lists (owner 10+v), length */
struct EdgeRef g_visited[NVX]; struct SafeInt g_length[NVX]; struct EdgeRef g_out[NVX][NE]; t_int g_outn[NVX]; x_std_vector_EdgeRef h_outvec[NVX];
void std_vector_EdgeRef__ctor__std_vector__size_type_std_vector_EdgeRef___value_type_R_std_vector_EdgeRef___allocator_type_R(x_std_vector_EdgeRef *self, unsigned long n, struct EdgeRef *v) {
  __CPROVER_assert(n == NVX, "one entry per vertex"); self->sz = (t_int)n; self->owner = 1; for (int i = 0; i < NVX; i++) g_visited[i] = *v; }
void std_vector_SafeInt__ctor__std_vector__size_type_std_vector_SafeInt___allocator_type_R(x_std_vector_SafeInt *self, unsigned long n) {
  __CPROVER_assert(n == NVX, "one entry per vertex"); self->sz = (t_int)n; for (int i = 0; i < NVX; i++) g_length[i].val = 0; }        /* value-initialised: SafeInt() is 0 */
struct EdgeRef *std_vector_EdgeRef__op_index(x_std_vector_EdgeRef *self, t_ulong i) { __CPROVER_assert(self->owner == 1 && i < NVX, "visited indexed by a vertex"); return &g_visited[i < NVX ? i : 0]; }
struct SafeInt *std_vector_SafeInt__op_index(x_std_vector_SafeInt *self, t_ulong i) { __CPROVER_assert(i < NVX, "length indexed by a vertex"); return &g_length[i < NVX ? i : 0]; }
x_std_vector_EdgeRef *std_vector_std_vector_EdgeRef__op_index(void *self, t_ulong v) { __CPROVER_assert(v < NVX, "adjacency list of a vertex"); t_int k = v < NVX ? (t_int)v : 0; h_outvec[k].sz = g_outn[k]; h_outvec[k].owner = 10 + k; return &h_outvec[k]; }
#define ITER x___gnu_cxx____normal_iterator_EdgeRef_P_std_vector_EdgeRef
ITER std_vector_EdgeRef__begin(x_std_vector_EdgeRef *self) { ITER i; i.idx = 0; i.owner = self->owner; return i; }
ITER std_vector_EdgeRef__end(x_std_vector_EdgeRef *self) { ITER i; i.idx = self->sz; i.owner = self->owner; return i; }
t_bool op_eq____normal_iterator_EdgeRef_P_std_vector_EdgeRef_R___normal_iterator_EdgeRef_P_std_vector_EdgeRef_R(ITER *a, ITER *b) { return a->idx == b->idx; }
ITER *__gnu_cxx____normal_iterator_EdgeRef_P_std_vector_EdgeRef__op_inc(ITER *self) { self->idx++; return self; }
struct EdgeRef *__gnu_cxx____normal_iterator_EdgeRef_P_std_vector_EdgeRef__op_mul(ITER *self) { t_int v = self->owner - 10; __CPROVER_assert(v >= 0 && v < NVX && self->idx >= 0 && self->idx < g_outn[v < NVX && v >= 0 ? v : 0], "iterator inside an adjacency list");
  return &g_out[v >= 0 && v < NVX ? v : 0][self->idx >= 0 && self->idx < NE ? self->idx : 0]; }
/* std::stack<VertexRef> */
#define STK 16
struct VertexRef g_stack[STK]; t_int g_sp;
void std_stack_VertexRef__ctor(x_std_stack_VertexRef *self) { g_sp = 0; }
void std_stack_VertexRef__push(x_std_stack_VertexRef *self, struct VertexRef v) { __CPROVER_assert(g_sp < STK, "harness bound: stack depth"); if (g_sp < STK) g_stack[g_sp] = v; g_sp++; }
t_bool std_stack_VertexRef__empty(x_std_stack_VertexRef *self) { return g_sp == 0; }
struct VertexRef *std_stack_VertexRef__top(x_std_stack_VertexRef *self) { __CPROVER_assert(g_sp > 0, "top of a non-empty stack"); return &g_stack[g_sp > 0 && g_sp <= STK ? g_sp - 1 : 0]; }
void std_stack_VertexRef__pop(x_std_stack_VertexRef *self) { __CPROVER_assert(g_sp > 0, "pop of a non-empty stack"); g_sp--; }
/* the result vector */
struct PtAsgn g_res[NE + 1]; t_int g_nres;
void vec_PtAsgn__push__PtAsgn_R(struct vec_PtAsgn *self, struct PtAsgn *e) { if (g_nres <= NE) g_res[g_nres] = *e; g_nres++; }
#endif
