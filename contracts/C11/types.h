#ifndef C11_TYPES_H
#define C11_TYPES_H
typedef struct { t_int sz; t_int owner; } x_std_vector_EdgeRef;        /* owner: which ghost array backs it (see stpexpl.h) */
typedef struct { t_int sz; } x_std_vector_SafeInt;
typedef struct { t_int sp; } x_std_stack_VertexRef;
typedef struct { t_int idx; t_int owner; } x___gnu_cxx____normal_iterator_EdgeRef_P_std_vector_EdgeRef;
typedef x___gnu_cxx____normal_iterator_EdgeRef_P_std_vector_EdgeRef x___normal_iterator_EdgeRef_P_std_vector_EdgeRef;
typedef unsigned long x_std_vector__size_type;
typedef struct { char o; } x_std_vector_EdgeRef___allocator_type; typedef struct { char o; } x_std_vector_SafeInt___allocator_type;
#endif
