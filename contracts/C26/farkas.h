/* C26 -- Simplex::getConflictingBounds: the row-based explanation of an arithmetic conflict.
 * View: the tableau row of the basic variable x is  x = sum_k a_k * y_k  (h_terms, h_n terms, pairwise different
 * variables, a_k != 0: the Polynomial invariant, assumed).  LRAModel::readLBoundRef/readUBoundRef hand out the active
 * bound of a variable; the stub encodes (variable, kind) in the LABoundRef it returns, so that the harness can read back
 * which bound each explanation entry names.  std::vector<ExplTerm> is a counter plus NV+1 cells. */
#ifndef FARKAS_H
#define FARKAS_H
#ifdef C26_R
#include "../C15/fr_R.h"
t_word nondet_word(void); t_uword nondet_uword(void);
/* harness-only construction code: no safety obligations are generated inside it (they are not about /repo code and cost cbmc minutes) */
#pragma CPROVER check push
#pragma CPROVER check disable "pointer"
#pragma CPROVER check disable "bounds"
#pragma CPROVER check disable "conversion"
#pragma CPROVER check disable "signed-overflow"
#pragma CPROVER check disable "unsigned-overflow"
#pragma CPROVER check disable "pointer-primitive"
/* a well-formed operand at real width: a machine-word rational or a GMP-held one (abstract value, exact sign) */
static void r_make(struct FastRational *x, __mpq_struct *q) {   /* q: static storage for the GMP part (three malloc'ed objects cost cbmc 600 s here, static ones 12 s) */
  t_bool big = nondet_bool();
  x->num = nondet_word(); x->den = nondet_uword(); x->mpq = (mpq_ptr)0;
  if (!big) { x->state = 1; __CPROVER_assume(x->den >= 1 && (x->num != 0 || x->den == 1)); }
  else { x->state = 6; x->mpq = q; x->mpq->_mp_num.g_init = 1; x->mpq->_mp_den.g_init = 1; osmt_havoc_mpq(x->mpq); __CPROVER_assume(!x->mpq->_mp_num.g_fs || !x->mpq->_mp_den.g_fu); }
  __CPROVER_assume(FR_WF_R(x));
}
#pragma CPROVER check pop
#else
#include "../C15/fr_S.h"
#endif
#define NV 3
t_u32 nondet_u32(void); t_uchar nondet_uchar(void); t_bool nondet_bool(void);
#define ITER x___gnu_cxx____normal_iterator_PolynomialT_LVRef___Term_P_std_vector_PolynomialT_LVRef___Term
#ifdef C26_STORE
#define C26_NOROW
#endif
#ifdef C26_STORE_UNB
#define C26_NOROW
#endif
#ifdef C26_ASSERT
#define C26_NOROW
#endif
#ifndef C26_NOROW   /* the tableau row (explanation and pivot jobs) */
struct LVRef h_x;                                /* the basic variable in conflict */
t_int h_n;                                       /* number of terms of its row */
#ifdef C26_R
struct PolynomialT_LVRef___Term h_ts[NV];           /* real width: an array (cbmc 6.11 trips an internal invariant on &(c ? &a : &b)->member here) */
#define h_t0 h_ts[0]
#define h_t1 h_ts[1]
#define h_t2 h_ts[2]
static struct PolynomialT_LVRef___Term *h_term(t_int k) { return &h_ts[k]; }
#else
struct PolynomialT_LVRef___Term h_t0, h_t1, h_t2;   /* scaled width: separate objects (arrays of sub-byte structs are mis-addressed, DESIGN 1) */
static struct PolynomialT_LVRef___Term *h_term(t_int k) { return k == 0 ? &h_t0 : k == 1 ? &h_t1 : &h_t2; }
#endif
struct PolynomialT_LVRef h_row;
struct PolynomialT_LVRef *Tableau__getRowPoly__LVRef_2f09fc(struct Tableau *self, struct LVRef v) { __CPROVER_assert(v.x == h_x.x, "the row of the variable in conflict"); return &h_row; }
t_ulong std_vector_PolynomialT_LVRef___Term__size(void *self) { __CPROVER_assert(self == (void *)&h_row.poly, "the row's term vector"); return (t_ulong)h_n; }
ITER std_vector_PolynomialT_LVRef___Term__cbegin(void *self) { __CPROVER_assert(self == (void *)&h_row.poly, "the row's term vector"); ITER i; i.idx = 0; return i; }
ITER std_vector_PolynomialT_LVRef___Term__cend(void *self) { __CPROVER_assert(self == (void *)&h_row.poly, "the row's term vector"); ITER i; i.idx = h_n; return i; }
ITER std_vector_PolynomialT_LVRef___Term__begin(void *self) { return std_vector_PolynomialT_LVRef___Term__cbegin(self); }
ITER std_vector_PolynomialT_LVRef___Term__end(void *self) { return std_vector_PolynomialT_LVRef___Term__cend(self); }
t_bool op_eq____normal_iterator_PolynomialT_LVRef___Term_P_std_vector_PolynomialT_LVRef___Term_R___normal_iterator_PolynomialT_LVRef___Term_P_std_vector_PolynomialT_LVRef___Term_R(ITER *a, ITER *b) { return a->idx == b->idx; }
ITER *__gnu_cxx____normal_iterator_PolynomialT_LVRef___Term_P_std_vector_PolynomialT_LVRef___Term__op_inc(ITER *self) { __CPROVER_assert(self->idx < h_n, "iterator incremented inside the row"); self->idx++; return self; }
struct PolynomialT_LVRef___Term *__gnu_cxx____normal_iterator_PolynomialT_LVRef___Term_P_std_vector_PolynomialT_LVRef___Term__op_mul(ITER *self) { __CPROVER_assert(self->idx >= 0 && self->idx < h_n, "iterator dereferenced inside the row"); return h_term(self->idx); }
#endif /* row */
#if defined(C26_EXPL) || defined(C26_ASSERT)
struct LRAModel h_model;
struct LRAModel *std_unique_ptr_LRAModel__op_arrow(x_std_unique_ptr_LRAModel *self) { return &h_model; }
#define BREF(v, upper) ((t_u32)(2 * (v) + ((upper) ? 1 : 0)))
t_int g_bound_reads;
struct LABoundRef LRAModel__readLBoundRef(struct LRAModel *self, struct LVRef v) { __CPROVER_assert(self == &h_model, "bounds are read from this Simplex's model"); g_bound_reads++; struct LABoundRef r; r.x = BREF(v.x, 0); return r; }
struct LABoundRef LRAModel__readUBoundRef(struct LRAModel *self, struct LVRef v) { __CPROVER_assert(self == &h_model, "bounds are read from this Simplex's model"); g_bound_reads++; struct LABoundRef r; r.x = BREF(v.x, 1); return r; }
/* std::vector<ExplTerm> */
struct Simplex__ExplTerm g_e0, g_e1, g_e2, g_e3; t_int g_vecs;
static struct Simplex__ExplTerm *g_e(t_int k) { return k == 0 ? &g_e0 : k == 1 ? &g_e1 : k == 2 ? &g_e2 : &g_e3; }
void std_vector_Simplex__ExplTerm__ctor(x_std_vector_Simplex__ExplTerm *self) { self->sz = 0; self->live = 1; g_vecs++; }
void std_vector_Simplex__ExplTerm__reserve(x_std_vector_Simplex__ExplTerm *self, t_ulong n) { __CPROVER_assert(self->live, "vector alive"); }
void std_vector_Simplex__ExplTerm__push_back(x_std_vector_Simplex__ExplTerm *self, struct Simplex__ExplTerm e) {
  __CPROVER_assert(self->live, "vector alive"); __CPROVER_assert(self->sz <= NV, "at most one explanation entry per row term plus the entry of x");
  if (self->sz <= NV) *g_e(self->sz) = e; self->sz++; }
void std_vector_Simplex__ExplTerm__ctor__std_vector_Simplex__ExplTerm_RR(x_std_vector_Simplex__ExplTerm *self, x_std_vector_Simplex__ExplTerm *o) { __CPROVER_assert(o->live, "vector alive"); *self = *o; o->sz = 0; }
#endif
#ifdef C26_ASSERT
/* Simplex::assertBound: the bound store and the model's trivial tests are stubs over one bound (h_ref -> h_bound) */
struct LABound h_bound; struct LABoundRef h_ref; t_bool h_unsat; t_int g_pushed, g_act;
struct LABound *LABoundStore__op_index__LABoundRef(void *self, struct LABoundRef r) { __CPROVER_assert(r.x == h_ref.x, "the bound being asserted is looked up"); return &h_bound; }
t_bool LRAModel__isUnbounded(void *self, struct LVRef v) { return 0; }
t_bool LRAModel__boundTriviallyUnsatisfied(void *self, struct LVRef v, struct LABoundRef r) { __CPROVER_assert(v.x == h_bound.var.x && r.x == h_ref.x, "tested: this bound on its own variable"); return h_unsat; }
t_bool LRAModel__boundTriviallySatisfied(void *self, struct LVRef v, struct LABoundRef r) { __CPROVER_assert(v.x == h_bound.var.x && r.x == h_ref.x, "tested: this bound on its own variable"); return nondet_bool(); }
void LRAModel__pushBound(void *self, struct LABoundRef r) { g_pushed++; }
void Simplex__boundActivated(void *self, struct LVRef v) { g_act++; }
x_std_pair_LVRef_LABoundRef h_pair;
x_std_pair_LVRef_LABoundRef *std_vector_std_pair_LVRef_LABoundRef__emplace_back(x_std_vector_std_pair_LVRef_LABoundRef *self, struct LVRef v, struct LABoundRef r) { self->sz++; return &h_pair; }
void std_vector_Simplex__ExplTerm__ctor__initializer_list_std_vector_Simplex__ExplTerm___value_type_std_vector_Simplex__ExplTerm___allocator_type_R(x_std_vector_Simplex__ExplTerm *self, struct osmt_ilist il) {
  __CPROVER_assert(il.n <= NV + 1, "explanation literal of at most NV+1 entries"); struct Simplex__ExplTerm *p = (struct Simplex__ExplTerm *)il.p;
  if (il.n > 0) g_e0 = p[0]; if (il.n > 1) g_e1 = p[1]; self->sz = (t_int)il.n; self->live = 1; g_vecs++; }
#endif
#ifdef C26_STORE
/* LASolver::storeExplanation: the Simplex explanation is h_in[0..h_n); the two output containers are ghost arrays */
struct Simplex__ExplTerm h_in[NV]; t_int h_n;
t_ulong std_vector_Simplex__ExplTerm__size(x_std_vector_Simplex__ExplTerm *self) { return (t_ulong)h_n; }
struct Simplex__ExplTerm *std_vector_Simplex__ExplTerm__op_index(x_std_vector_Simplex__ExplTerm *self, t_ulong i) { __CPROVER_assert(i < (t_ulong)h_n, "explanation indexed inside its size"); return &h_in[i < NV ? i : 0]; }
#define ASGN_TR(b) ((t_u32)((b) ^ 0x5a5a5a5au))      /* the stub's injective bound -> literal map */
struct PtAsgn LASolver__getAsgnByBound(void *self, struct LABoundRef r) { struct PtAsgn a; a.tr.x = ASGN_TR(r.x); a.sgn.value = (t_uchar)(r.x & 1); return a; }
t_int g_lits, g_coeffs; struct PtAsgn g_lit[NV]; struct FastRational g_cf[NV];
void vec_PtAsgn__clear(struct vec_PtAsgn *self) { g_lits = 0; }   /* default argument dropped at calls of stubbed functions */
void vec_PtAsgn__push__PtAsgn_R(struct vec_PtAsgn *self, struct PtAsgn *e) { if (g_lits >= 0 && g_lits < NV) g_lit[g_lits] = *e; g_lits++; }
void std_vector_FastRational__clear(x_std_vector_FastRational *self) { g_coeffs = 0; }
void std_vector_FastRational__push_back(x_std_vector_FastRational *self, struct FastRational v) { if (g_coeffs >= 0 && g_coeffs < NV) g_cf[g_coeffs] = v; g_coeffs++; }
__mpq_struct h_q[NV];
#endif
#ifdef C26_STORE_UNB
/* LASolver::storeExplanation, unbounded in the number of entries: loop contract, one symbolic cell (ghost index g_k) */
t_int h_n; t_int g_k; struct Simplex__ExplTerm h_cell, h_othr; __mpq_struct h_q[1];
t_ulong std_vector_Simplex__ExplTerm__size(x_std_vector_Simplex__ExplTerm *self) { return (t_ulong)h_n; }
struct Simplex__ExplTerm *std_vector_Simplex__ExplTerm__op_index(x_std_vector_Simplex__ExplTerm *self, t_ulong i) { __CPROVER_assert(i < (t_ulong)h_n, "explanation indexed inside its size");
  if (i == (t_ulong)g_k) return &h_cell; h_othr.boundref.x = nondet_u32(); return &h_othr; }
#define ASGN_TR(b) ((t_u32)((b) ^ 0x5a5a5a5au))
struct PtAsgn LASolver__getAsgnByBound(void *self, struct LABoundRef r) { struct PtAsgn a; a.tr.x = ASGN_TR(r.x); a.sgn.value = (t_uchar)(r.x & 1); return a; }
t_long g_lits, g_coeffs; struct PtAsgn g_lit_k; struct FastRational g_cf_k;
void vec_PtAsgn__clear(struct vec_PtAsgn *self) { g_lits = 0; }
void vec_PtAsgn__push__PtAsgn_R(struct vec_PtAsgn *self, struct PtAsgn *e) { if (g_lits == (t_long)g_k) g_lit_k = *e; g_lits++; }
void std_vector_FastRational__clear(x_std_vector_FastRational *self) { g_coeffs = 0; }
void std_vector_FastRational__push_back(x_std_vector_FastRational *self, struct FastRational v) { if (g_coeffs == (t_long)g_k) g_cf_k = v; g_coeffs++; }
#define CELL_STORED (g_lit_k.tr.x == ASGN_TR(h_cell.boundref.x) && g_lit_k.sgn.value == (h_cell.boundref.x & 1) && g_cf_k.state == h_cell.coeff.state && g_cf_k.num == h_cell.coeff.num && g_cf_k.den == h_cell.coeff.den && g_cf_k.mpq == h_cell.coeff.mpq)
#define OSMT_LOOP_LASolver__storeExplanation_1 \
  __CPROVER_assigns(i, g_lits, g_coeffs, g_lit_k, g_cf_k, h_othr, OSMT_TEMPS_LASolver__storeExplanation) \
  __CPROVER_loop_invariant(i <= (t_ulong)h_n && g_lits == (t_long)i && g_coeffs == (t_long)i && (i > (t_ulong)g_k ==> CELL_STORED)) \
  __CPROVER_decreases((t_long)h_n - (t_long)i)
#endif
#ifdef C26_PIVOT
/* pivot selection: the model-level predicates are ghost booleans per row variable */
t_bool h_lower; t_bool h_under[NV], h_over[NV];
#define E_UNDEF ((t_u32)OSMT_LIM_INT32_MAX)
static t_int h_idx(struct LVRef v) { for (int k = 0; k < NV; k++) if (k < h_n && h_term(k)->var.x == v.x) return k; __CPROVER_assert(0, "model predicates are asked about row variables only"); return 0; }
t_bool Simplex__isModelOutOfLowerBound(void *self, struct LVRef v) { __CPROVER_assert(v.x == h_x.x, "asked about the basic variable"); return h_lower; }
t_bool Simplex__isModelOutOfUpperBound(void *self, struct LVRef v) { __CPROVER_assert(v.x == h_x.x, "asked about the basic variable"); return !h_lower; }
t_bool Simplex__isModelStrictlyUnderUpperBound(void *self, struct LVRef v) { return h_under[h_idx(v)]; }
t_bool Simplex__isModelStrictlyOverLowerBound(void *self, struct LVRef v) { return h_over[h_idx(v)]; }
t_bool Tableau__isNonBasic(void *self, struct LVRef v) { return v.x != h_x.x; }
t_bool Tableau__isBasic(void *self, struct LVRef v) { return v.x == h_x.x; }
t_uint max(void) { return (t_uint)OSMT_LIM_UINT_MAX; }   /* std::numeric_limits<unsigned>::max() */
struct Tableau__Column h_col;
struct Tableau__Column *Tableau__getColumn(void *self, struct LVRef v) { (void)h_idx(v); return &h_col; }
t_ulong std_vector_LVRef__size(void *self) { t_ulong n = nondet_ulong(); __CPROVER_assume(n <= OSMT_LIM_UINT_MAX); return n; }   /* column lengths: any (Column::size() narrows to unsigned: fewer than 2^32 rows assumed) */
__mpq_struct h_q[NV];
#endif
#endif
