/* C26 -- Simplex::checkSimplex: when a conflict is reported, the explanation is requested for the right row and the right side.
 * All helpers are stubs that answer arbitrarily and remember what they were asked; loop contract on the pivoting loop (no variant:
 * termination is not claimed).  Obligations: a conflict is reported only for the basic variable x that was selected last and for which
 * the pivot selection found no variable; the explanation is built for the side (lower / upper) on which the model says x is out of
 * bounds, after the last consistent assignment has been restored; selection of x and of the pivot variable use the same rule
 * (both Bland or both heuristic); "no conflict" is answered only when no basic variable is out of bounds, and then the assignment is saved. */
#ifndef CHECKSIMPLEX_H
#define CHECKSIMPLEX_H
t_bool nondet_bool(void); t_u32 nondet_u32(void); t_ulong nondet_ulong(void); int __osmt_thrown;
#define E_UNDEF ((t_u32)OSMT_LIM_INT32_MAX)
struct LRAModel h_model;
struct LRAModel *std_unique_ptr_LRAModel__op_arrow(x_std_unique_ptr_LRAModel *self) { return &h_model; }
t_u32 g_x; t_bool g_x_bland; t_u32 g_y_for; t_u32 g_y; t_bool g_y_bland; t_bool g_lower_ans; t_u32 g_lower_for;
t_int g_saved, g_restored, g_conflicts; t_u32 g_cx; t_bool g_clower; t_bool g_restored_before_expl;
void Simplex__processBufferOfActivatedBounds(void *self) { }
void Simplex__refineBounds(void *self) { }
void LRAModel__saveAssignment(void *self) { g_saved = 1; }
void LRAModel__restoreAssignment(void *self) { g_restored = 1; }
void Simplex__pivot(void *self, struct LVRef x, struct LVRef y) { __CPROVER_assert(x.x == g_x && y.x == g_y && y.x != E_UNDEF, "the pivot exchanges the selected basic variable with the variable the pivot selection returned"); }
t_size Tableau__getNumOfCols(void *self) { return nondet_ulong(); }
static struct LVRef sel(t_bool bland) { struct LVRef r; r.x = nondet_u32(); __CPROVER_assume(r.x <= E_UNDEF); g_x = r.x; g_x_bland = bland; return r; }
struct LVRef Simplex__getBasicVarToFixByBland(void *self) { return sel(1); }
struct LVRef Simplex__getBasicVarToFixByShortestPoly(void *self) { return sel(0); }
static struct LVRef piv(struct LVRef x, t_bool bland) { struct LVRef r; r.x = nondet_u32(); __CPROVER_assume(r.x <= E_UNDEF); g_y_for = x.x; g_y = r.x; g_y_bland = bland; return r; }
struct LVRef Simplex__findNonBasicForPivotByBland(void *self, struct LVRef x) { return piv(x, 1); }
struct LVRef Simplex__findNonBasicForPivotByHeuristic(void *self, struct LVRef x) { return piv(x, 0); }
t_bool Simplex__isModelOutOfBounds(void *self, struct LVRef x) { return 1; }      /* candidates are out of bounds (invariant of the candidate set, assumed) */
t_bool Simplex__isModelOutOfLowerBound(void *self, struct LVRef x) { g_lower_ans = nondet_bool(); g_lower_for = x.x; return g_lower_ans; }
void std_vector_Simplex__ExplTerm__ctor(x_std_vector_Simplex__ExplTerm *self) { self->sz = 0; self->live = 1; }
x_std_vector_Simplex__ExplTerm Simplex__getConflictingBounds(void *self, struct LVRef x, t_bool lower) { g_conflicts++; g_cx = x.x; g_clower = lower; g_restored_before_expl = g_restored;
  x_std_vector_Simplex__ExplTerm r; r.sz = 1; r.live = 1; return r; }
#define OSMT_LOOP_Simplex__checkSimplex_1 \
  __CPROVER_assigns(repeats, bland_rule, g_x, g_x_bland, g_y_for, g_y, g_y_bland, g_opaque_Simplex_simplex_stats, OSMT_TEMPS_Simplex__checkSimplex) \
  __CPROVER_loop_invariant(g_conflicts == 0 && g_saved == 0 && g_restored == 0)
#endif
