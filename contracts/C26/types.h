/* C26: C shapes of the library types Simplex::getConflictingBounds touches (container contents live in ghost state of farkas.h) */
#ifndef C26_TYPES_H
#define C26_TYPES_H
typedef struct { char __o; } x_std_unique_ptr_LRAModel;
typedef struct { t_int idx; } x___gnu_cxx____normal_iterator_PolynomialT_LVRef___Term_P_std_vector_PolynomialT_LVRef___Term;
typedef x___gnu_cxx____normal_iterator_PolynomialT_LVRef___Term_P_std_vector_PolynomialT_LVRef___Term x___normal_iterator_PolynomialT_LVRef___Term_P_std_vector_PolynomialT_LVRef___Term;
typedef struct { t_int sz; t_bool live; } x_std_vector_Simplex__ExplTerm;
typedef struct { t_u32 first, second; } x_std_pair_LVRef_LABoundRef;
typedef struct { t_int sz; } x_std_vector_std_pair_LVRef_LABoundRef;
typedef struct { t_int sz; } x_std_vector_FastRational;
#endif
