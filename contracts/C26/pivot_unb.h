/* C26 -- Simplex::findNonBasicForPivotByBland, UNBOUNDED in the length of the row (loop contracts on both row loops).
 * One symbolic cell (ghost index g_k) stands for an arbitrary row position; the model predicates of every other term are arbitrary.
 * Ghost bookkeeping at the loop tail: g_ok records that the variable currently held in y_found was taken from a term that is
 * eligible (has room in the helpful direction).  Postcondition (harness):  the cell is eligible ==> some variable is returned;
 * a returned variable was eligible.  Since the cell is arbitrary:  Undef is returned exactly when no row term is eligible. */
#ifndef PIVOT_UNB_H
#define PIVOT_UNB_H
#include "../C15/fr_R.h"
t_bool nondet_bool(void); t_u32 nondet_u32(void); t_int nondet_int(void); t_word nondet_word(void); t_uword nondet_uword(void);
#define ITER x___gnu_cxx____normal_iterator_PolynomialT_LVRef___Term_P_std_vector_PolynomialT_LVRef___Term
#define E_UNDEF ((t_u32)OSMT_LIM_INT32_MAX)
struct LVRef h_x; t_int h_n; t_int g_k; t_bool h_lower;
struct PolynomialT_LVRef___Term h_cell, h_other; struct PolynomialT_LVRef h_row;
t_bool h_cell_under, h_cell_over;      /* the model predicates of the cell's variable */
t_bool g_under_last, g_over_last;      /* what the predicates answered in the current iteration (false if not asked) */
t_bool g_ok; t_u32 g_prev_found;
struct PolynomialT_LVRef *Tableau__getRowPoly__LVRef_2f09fc(struct Tableau *self, struct LVRef v) { __CPROVER_assert(v.x == h_x.x, "the row of the basic variable"); return &h_row; }
ITER std_vector_PolynomialT_LVRef___Term__cbegin(void *self) { ITER i; i.idx = 0; return i; }
ITER std_vector_PolynomialT_LVRef___Term__cend(void *self) { ITER i; i.idx = h_n; return i; }
ITER std_vector_PolynomialT_LVRef___Term__begin(void *self) { return std_vector_PolynomialT_LVRef___Term__cbegin(self); }
ITER std_vector_PolynomialT_LVRef___Term__end(void *self) { return std_vector_PolynomialT_LVRef___Term__cend(self); }
t_bool op_eq____normal_iterator_PolynomialT_LVRef___Term_P_std_vector_PolynomialT_LVRef___Term_R___normal_iterator_PolynomialT_LVRef___Term_P_std_vector_PolynomialT_LVRef___Term_R(ITER *a, ITER *b) { return a->idx == b->idx; }
ITER *__gnu_cxx____normal_iterator_PolynomialT_LVRef___Term_P_std_vector_PolynomialT_LVRef___Term__op_inc(ITER *self) { __CPROVER_assert(self->idx < h_n, "iterator incremented inside the row"); self->idx++; return self; }
static void wf_term(struct PolynomialT_LVRef___Term *t) { t->var.x = nondet_u32(); t->coeff.state = 1; t->coeff.num = nondet_word(); t->coeff.den = nondet_uword(); t->coeff.mpq = (mpq_ptr)0;
  __CPROVER_assume(t->var.x != h_x.x && t->var.x < E_UNDEF && t->coeff.num != 0 && t->coeff.den >= 1); }
struct PolynomialT_LVRef___Term *__gnu_cxx____normal_iterator_PolynomialT_LVRef___Term_P_std_vector_PolynomialT_LVRef___Term__op_mul(ITER *self) {
  __CPROVER_assert(self->idx >= 0 && self->idx < h_n, "iterator dereferenced inside the row");
  if (self->idx == g_k) return &h_cell; wf_term(&h_other); __CPROVER_assume(h_other.var.x != h_cell.var.x); return &h_other; }
t_bool Simplex__isModelOutOfLowerBound(void *self, struct LVRef v) { __CPROVER_assert(v.x == h_x.x, "asked about the basic variable"); return h_lower; }
t_bool Simplex__isModelOutOfUpperBound(void *self, struct LVRef v) { __CPROVER_assert(v.x == h_x.x, "asked about the basic variable"); return !h_lower; }
t_bool Simplex__isModelStrictlyUnderUpperBound(void *self, struct LVRef v) { g_under_last = (v.x == h_cell.var.x) ? h_cell_under : nondet_bool(); return g_under_last; }
t_bool Simplex__isModelStrictlyOverLowerBound(void *self, struct LVRef v) { g_over_last = (v.x == h_cell.var.x) ? h_cell_over : nondet_bool(); return g_over_last; }
t_bool Tableau__isNonBasic(void *self, struct LVRef v) { return v.x != h_x.x; }
t_bool Tableau__isBasic(void *self, struct LVRef v) { return v.x == h_x.x; }
t_uint max(void) { return (t_uint)OSMT_LIM_UINT_MAX; }
/* sign test on coefficients by contract (machine-word coefficients) */
t_bool isPositive(struct FastRational *c) { __CPROVER_assert(FR_WORD(c), "harness bound: machine-word coefficients"); return c->num > 0; }
/* eligibility of a term with coefficient sign `pos` under the answers of this iteration */
#define ELIG_NOW(lower, pos) ((lower) ? (((pos) && g_under_last) || (!(pos) && g_over_last)) : ((!(pos) && g_under_last) || ((pos) && g_over_last)))
#define CELL_ELIG ((h_lower) ? ((h_cell.coeff.num > 0 && h_cell_under) || (h_cell.coeff.num < 0 && h_cell_over)) : ((h_cell.coeff.num < 0 && h_cell_under) || (h_cell.coeff.num > 0 && h_cell_over)))
#define HEAD_COMMON g_under_last = 0; g_over_last = 0;
#define TAIL_COMMON(pos, lower) if (y_found.x != g_prev_found) { g_ok = ELIG_NOW(lower, pos); g_prev_found = y_found.x; }
#define FRAME_COMMON g_under_last, g_over_last, g_ok, g_prev_found, h_other, y_found, OSMT_TEMPS_Simplex__findNonBasicForPivotByBland
#define INV_COMMON(it, curr) ((it).idx >= 0 && (it).idx <= h_n && g_prev_found == y_found.x && ((y_found.x == E_UNDEF) == ((curr) == (t_uint)OSMT_LIM_UINT_MAX)) \
   && (y_found.x != E_UNDEF ==> g_ok) && (((it).idx > g_k && CELL_ELIG) ==> y_found.x != E_UNDEF))
#define OSMT_LOOPHEAD_Simplex__findNonBasicForPivotByBland_1 HEAD_COMMON
#define OSMT_LOOPTAIL_Simplex__findNonBasicForPivotByBland_1 TAIL_COMMON(coeff_is_pos, 1)
#define OSMT_LOOP_Simplex__findNonBasicForPivotByBland_1 \
  __CPROVER_assigns(__begin2.idx, curr_var_id_y, FRAME_COMMON) \
  __CPROVER_loop_invariant(__end2.idx == h_n && INV_COMMON(__begin2, curr_var_id_y)) \
  __CPROVER_decreases(h_n - __begin2.idx)
#define OSMT_LOOPHEAD_Simplex__findNonBasicForPivotByBland_2 HEAD_COMMON
#define OSMT_LOOPTAIL_Simplex__findNonBasicForPivotByBland_2 TAIL_COMMON(coeff_is_pos_2, 0)
#define OSMT_LOOP_Simplex__findNonBasicForPivotByBland_2 \
  __CPROVER_assigns(__begin3.idx, curr_var_id_y_2, FRAME_COMMON) \
  __CPROVER_loop_invariant(__end3.idx == h_n && INV_COMMON(__begin3, curr_var_id_y_2)) \
  __CPROVER_decreases(h_n - __begin3.idx)
/* ---- findNonBasicForPivotByHeuristic: the same argument; the tie-break by column length is irrelevant to it (column lengths are arbitrary) ---- */
#ifdef C26_HEUR
struct Tableau__Column h_col;
struct Tableau__Column *Tableau__getColumn(void *self, struct LVRef v) { return &h_col; }
t_ulong std_vector_LVRef__size(void *self) { t_ulong n = nondet_ulong(); __CPROVER_assume(n <= OSMT_LIM_UINT_MAX); return n; }
#endif
#define TAIL_H(pos, lower) if (v_found.x != g_prev_found) { g_ok = ELIG_NOW(lower, pos); g_prev_found = v_found.x; }
#define FRAME_H g_under_last, g_over_last, g_ok, g_prev_found, h_other, v_found, OSMT_TEMPS_Simplex__findNonBasicForPivotByHeuristic
#define INV_H(it) ((it).idx >= 0 && (it).idx <= h_n && g_prev_found == v_found.x && (v_found.x != E_UNDEF ==> g_ok) && (((it).idx > g_k && CELL_ELIG) ==> v_found.x != E_UNDEF))
#define OSMT_LOOPHEAD_Simplex__findNonBasicForPivotByHeuristic_1 HEAD_COMMON
#define OSMT_LOOPTAIL_Simplex__findNonBasicForPivotByHeuristic_1 TAIL_H(is_coeff_pos, 1)
#define OSMT_LOOP_Simplex__findNonBasicForPivotByHeuristic_1 \
  __CPROVER_assigns(__begin2.idx, FRAME_H) __CPROVER_loop_invariant(__end2.idx == h_n && INV_H(__begin2)) __CPROVER_decreases(h_n - __begin2.idx)
#define OSMT_LOOPHEAD_Simplex__findNonBasicForPivotByHeuristic_2 HEAD_COMMON
#define OSMT_LOOPTAIL_Simplex__findNonBasicForPivotByHeuristic_2 TAIL_H(is_coeff_pos_2, 0)
#define OSMT_LOOP_Simplex__findNonBasicForPivotByHeuristic_2 \
  __CPROVER_assigns(__begin3.idx, FRAME_H) __CPROVER_loop_invariant(__end3.idx == h_n && INV_H(__begin3)) __CPROVER_decreases(h_n - __begin3.idx)
#endif
