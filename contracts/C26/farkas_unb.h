/* C26 -- Simplex::getConflictingBounds, UNBOUNDED in the length of the row (loop contract on the row loop).
 * One symbolic cell instead of a quantifier: the ghost index g_k (any position of the row, fixed before the call) selects the row
 * term whose explanation entry is tracked; the row stub returns the fixed term (h_cell) at position g_k and an arbitrary well-formed
 * term elsewhere; the explanation vector records entry 0 and entry g_k+1 and counts the rest.  Since g_k is arbitrary, the
 * postcondition holds for every entry.  FastRational operations on coefficients are by contract (sign test, exact negation, copy;
 * machine-word coefficients other than INT_MIN -- the GMP path is decided at scaled width by the bounded job). */
#ifndef FARKAS_UNB_H
#define FARKAS_UNB_H
#include "../C15/fr_R.h"
t_bool nondet_bool(void); t_u32 nondet_u32(void); t_int nondet_int(void); t_word nondet_word(void); t_uword nondet_uword(void);
#define ITER x___gnu_cxx____normal_iterator_PolynomialT_LVRef___Term_P_std_vector_PolynomialT_LVRef___Term
struct LVRef h_x; t_int h_n; t_int g_k;
struct PolynomialT_LVRef___Term h_cell, h_other; struct PolynomialT_LVRef h_row; struct LRAModel h_model;
struct LRAModel *std_unique_ptr_LRAModel__op_arrow(x_std_unique_ptr_LRAModel *self) { return &h_model; }
#define BREF(v, upper) ((t_u32)(2 * (v) + ((upper) ? 1 : 0)))
struct LABoundRef LRAModel__readLBoundRef(struct LRAModel *self, struct LVRef v) { struct LABoundRef r; r.x = BREF(v.x, 0); return r; }
struct LABoundRef LRAModel__readUBoundRef(struct LRAModel *self, struct LVRef v) { struct LABoundRef r; r.x = BREF(v.x, 1); return r; }
struct PolynomialT_LVRef *Tableau__getRowPoly__LVRef_2f09fc(struct Tableau *self, struct LVRef v) { __CPROVER_assert(v.x == h_x.x, "the row of the variable in conflict"); return &h_row; }
t_ulong std_vector_PolynomialT_LVRef___Term__size(void *self) { return (t_ulong)h_n; }
ITER std_vector_PolynomialT_LVRef___Term__cbegin(void *self) { ITER i; i.idx = 0; return i; }
ITER std_vector_PolynomialT_LVRef___Term__cend(void *self) { ITER i; i.idx = h_n; return i; }
ITER std_vector_PolynomialT_LVRef___Term__begin(void *self) { return std_vector_PolynomialT_LVRef___Term__cbegin(self); }
ITER std_vector_PolynomialT_LVRef___Term__end(void *self) { return std_vector_PolynomialT_LVRef___Term__cend(self); }
t_bool op_eq____normal_iterator_PolynomialT_LVRef___Term_P_std_vector_PolynomialT_LVRef___Term_R___normal_iterator_PolynomialT_LVRef___Term_P_std_vector_PolynomialT_LVRef___Term_R(ITER *a, ITER *b) { return a->idx == b->idx; }
ITER *__gnu_cxx____normal_iterator_PolynomialT_LVRef___Term_P_std_vector_PolynomialT_LVRef___Term__op_inc(ITER *self) { __CPROVER_assert(self->idx < h_n, "iterator incremented inside the row"); self->idx++; return self; }
static void wf_term(struct PolynomialT_LVRef___Term *t) { t->var.x = nondet_u32(); t->coeff.state = 1; t->coeff.num = nondet_word(); t->coeff.den = nondet_uword(); t->coeff.mpq = (mpq_ptr)0;
  __CPROVER_assume(t->var.x != h_x.x && t->var.x < 0x40000000u && t->coeff.num != 0 && t->coeff.num != (-2147483647 - 1) && t->coeff.den >= 1); }
struct PolynomialT_LVRef___Term *__gnu_cxx____normal_iterator_PolynomialT_LVRef___Term_P_std_vector_PolynomialT_LVRef___Term__op_mul(ITER *self) {
  __CPROVER_assert(self->idx >= 0 && self->idx < h_n, "iterator dereferenced inside the row");
  if (self->idx == g_k) return &h_cell; wf_term(&h_other); return &h_other; }
/* FastRational on coefficients, by contract */
t_bool FastRational__isZero(struct FastRational *c) { return c->num == 0; }
t_bool isNegative(struct FastRational *c) { __CPROVER_assert(FR_WORD(c), "harness bound: machine-word coefficients"); return c->num < 0; }
struct FastRational FastRational__op_minus__void(struct FastRational *c) { __CPROVER_assert(FR_WORD(c) && c->num != (-2147483647 - 1), "harness bound: machine-word coefficients other than INT_MIN");
  struct FastRational r; r.state = 1; r.num = -c->num; r.den = c->den; r.mpq = (mpq_ptr)0; return r; }
void FastRational__ctor__FastRational_R(struct FastRational *self, struct FastRational *o) { *self = *o; }
void FastRational__ctor__word(struct FastRational *self, t_word v) { self->state = 1; self->num = v; self->den = 1; self->mpq = (mpq_ptr)0; }
/* std::vector<ExplTerm>: size, entry 0 and entry g_k+1 */
struct Simplex__ExplTerm g_e0, g_ek; t_int g_sz;
void std_vector_Simplex__ExplTerm__ctor(x_std_vector_Simplex__ExplTerm *self) { self->sz = 0; self->live = 1; g_sz = 0; }
void std_vector_Simplex__ExplTerm__reserve(x_std_vector_Simplex__ExplTerm *self, t_ulong n) { }
void std_vector_Simplex__ExplTerm__push_back(x_std_vector_Simplex__ExplTerm *self, struct Simplex__ExplTerm e) { if (g_sz == 0) g_e0 = e; if (g_sz == g_k + 1) g_ek = e; g_sz++; }
void std_vector_Simplex__ExplTerm__ctor__std_vector_Simplex__ExplTerm_RR(x_std_vector_Simplex__ExplTerm *self, x_std_vector_Simplex__ExplTerm *o) { *self = *o; }
/* "entry g_k+1 is the Farkas entry of the row term at g_k": a bound of that variable, positive coefficient |a|, bound kind by the sign rule */
#define SGN(b) (((b) & 1u) ? 1 : -1)
#define CELL_OK(lower) ( (g_ek.boundref.x >> 1) == h_cell.var.x && FR_WORD(&g_ek.coeff) && g_ek.coeff.num > 0 && g_ek.coeff.den == h_cell.coeff.den \
   && (t_long)g_ek.coeff.num == (h_cell.coeff.num < 0 ? -(t_long)h_cell.coeff.num : (t_long)h_cell.coeff.num) \
   && ((lower) ? -1 : 1) * (h_cell.coeff.num < 0 ? -1 : 1) + SGN(g_ek.boundref.x) == 0 )
/* row loop: __begin1 walks 0..h_n; one entry per visited term has been pushed after the entry of x */
#define OSMT_LOOP_Simplex__getConflictingBounds_1 \
  __CPROVER_assigns(__begin1.idx, g_sz, g_ek, h_other, OSMT_TEMPS_Simplex__getConflictingBounds) \
  __CPROVER_loop_invariant(__begin1.idx >= 0 && __begin1.idx <= h_n && __end1.idx == h_n && g_sz == __begin1.idx + 1 && (__begin1.idx > g_k ==> CELL_OK(conflictOnLower))) \
  __CPROVER_decreases(h_n - __begin1.idx)
#endif
