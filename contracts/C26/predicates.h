/* C26 (premise of the certificate) -- the model predicates the pivot selection asks:  Simplex::isModelStrictlyUnderUpperBound,
 * isModelStrictlyOverLowerBound, isModelOutOfUpperBound, isModelOutOfLowerBound compare the model value with the active bound IN Q_delta
 * (pairs (c,k) = c + k*delta, lexicographic order), a missing bound being +-infinity.  Delta's comparison operators are lowered from
 * Delta.h; FastRational comparison is by contract (exact); values from a small alphabet of rationals. */
#ifndef C26_PREDICATES_H
#define C26_PREDICATES_H
#include "../C15/fr_R.h"
t_bool nondet_bool(void); t_uchar nondet_uchar(void);
struct LRAModel h_model; struct Delta h_val, h_lbd, h_ubd; t_bool h_haslb, h_hasub;
struct LRAModel *std_unique_ptr_LRAModel__op_arrow(x_std_unique_ptr_LRAModel *self) { return &h_model; }
struct Delta *LRAModel__read(void *self, struct LVRef *v) { return &h_val; }
struct Delta *LRAModel__Lb(void *self, struct LVRef v) { __CPROVER_assert(h_haslb, "a lower bound is read only if there is one"); return &h_lbd; }
struct Delta *LRAModel__Ub(void *self, struct LVRef v) { __CPROVER_assert(h_hasub, "an upper bound is read only if there is one"); return &h_ubd; }
t_bool LRAModel__hasLBound(void *self, struct LVRef v) { return h_haslb; }
t_bool LRAModel__hasUBound(void *self, struct LVRef v) { return h_hasub; }
#define QN(x) ((long long)(x)->num)
#define QD(x) ((long long)(x)->den)
t_int FastRational__compare__FastRational_R(struct FastRational *a, struct FastRational *b) { long long l = QN(a) * QD(b), r = QN(b) * QD(a); return l < r ? -1 : (l > r ? 1 : 0); }
t_bool FastRational__op_eq(struct FastRational *a, struct FastRational *b) { return QN(a) * QD(b) == QN(b) * QD(a); }
/* reference order on Q_delta */
static int q_cmp(struct FastRational *a, struct FastRational *b) { long long l = QN(a) * QD(b), r = QN(b) * QD(a); return l < r ? -1 : (l > r ? 1 : 0); }
static int d_cmp(struct Delta *a, struct Delta *b) { int c = q_cmp(&a->r, &b->r); return c != 0 ? c : q_cmp(&a->d, &b->d); }
#endif
