/* C20 / C18 -- Interpret::interpPipe (pipe-mode command framing), lowered whole, loop contracts on all four loops: UNBOUNDED
 * in the input length and in the chunking chosen by read().
 *
 * (1) C20: the framing flags of the scanning loop are, after every byte, exactly the state of the lexer's start-condition
 *     automaton (INITIAL / comment / STR / STR-after-backslash / PSYM, read off smt2newlexer.ll) and `par` is its parenthesis
 *     depth.  The ghost automaton is advanced in lock-step at the loop tail; the equality is the loop invariant.  No invariant
 *     mentions where read() cut the input, so the framing is independent of the chunking.
 * (2) C18: every buffer index is inside the live allocated block, no use after free / double free, no signed overflow, the
 *     code's own index asserts hold.  The two heap buffers are abstracted to their size and liveness (ghost-size mode of the
 *     lowering): nothing is proved about their contents except the position of the terminating NUL.
 */
#ifndef PIPE_H
#define PIPE_H
t_char nondet_char(void); t_bool nondet_bool(void); t_int nondet_int(void); t_long nondet_long(void);
int __osmt_thrown;
/* ---- ghost-size buffers -------------------------------------------------------------------------------------- */
t_long g_ptr_off, g_ptr_sz; t_bool g_ptr_live;      /* the last buffer position handed to a stub */
#define OSMT_GS_DECL(b) t_long b##__sz = 0; t_bool b##__live = 0; t_long b##__nul = -1
#define OSMT_GS_MALLOC(b, n)  (b##__sz = (t_long)(n), b##__live = 1, b##__nul = -1)
#define OSMT_GS_REALLOC(b, n) (__CPROVER_assert(b##__live, "realloc of a live buffer"), __CPROVER_assert((t_long)(n) >= b##__sz, "realloc never shrinks below the bytes in use"), b##__sz = (t_long)(n))
#define OSMT_GS_FREE(b)       (__CPROVER_assert(b##__live, "free of a live buffer (no double free)"), b##__live = 0)
#define OSMT_GS_IDX(b, e)     __CPROVER_assert(b##__live && (t_long)(e) >= 0 && (t_long)(e) < b##__sz, "buffer index inside the live allocated block (" #b ")")
static t_char gs_rd(t_long e, t_long nul) { t_char c = nondet_char(); if (e == nul) return (t_char)0; return c; }
static t_long gs_wr(t_long e, t_char v, t_long nul) { if (v == 0) return e; if (e == nul) return -1; return nul; }
#define OSMT_GS_RD(b, e)      (OSMT_GS_IDX(b, e), gs_rd((t_long)(e), b##__nul))
#define OSMT_GS_WR(b, e, v)   (OSMT_GS_IDX(b, e), b##__nul = gs_wr((t_long)(e), (v), b##__nul))
#define OSMT_GS_PTR(b, e)     (g_ptr_off = (t_long)(e), g_ptr_sz = b##__sz, g_ptr_live = b##__live, b##__nul = ((t_long)(e) <= b##__nul ? -1 : b##__nul), OSMT_GS_ADDR(e))
/* a ghost buffer position as a pointer VALUE (never dereferenced): null + 1 + index, so that differences of positions are
   index differences and no position equals NULL */
#define OSMT_GS_ADDR(e) ((t_char *)0 + 1 + (t_long)(e))

/* ---- the reference: start conditions of smt2newlexer.ll ------------------------------------------------------ */
#define ST_INITIAL 0
#define ST_COMMENT 1   /* \;.*            : up to, not including, the newline                         */
#define ST_STR     2   /* <STR>           : entered by ", left by "                                   */
#define ST_STR_BS  3   /* <STR> after \   : \" and \\ are two-character tokens, any other pair too     */
#define ST_PSYM    4   /* <PSYM>          : entered by |, left by |                                    */
t_uchar g_st; t_int g_depth;
static void lex_step(t_char c) {
  if (g_st == ST_INITIAL) {
    if (c == ';') g_st = ST_COMMENT; else if (c == '"') g_st = ST_STR; else if (c == '|') g_st = ST_PSYM;
    else if (c == '(') g_depth = g_depth + 1; else if (c == ')') g_depth = g_depth - 1;
  } else if (g_st == ST_COMMENT) { if (c == '\n') g_st = ST_INITIAL; }
  else if (g_st == ST_STR) { if (c == '\\') g_st = ST_STR_BS; else if (c == '"') g_st = ST_INITIAL; }
  else if (g_st == ST_STR_BS) { g_st = ST_STR; }
  else { if (c == '|') g_st = ST_INITIAL; }
}
#define INV_LEX_BASE (inComment == (g_st == ST_COMMENT) && inQuotedSymbol == (g_st == ST_PSYM) && inString == (g_st == ST_STR || g_st == ST_STR_BS) \
                      && g_st <= ST_PSYM && par == g_depth)
#define INV_LEX (INV_LEX_BASE && inStringEscape == (g_st == ST_STR_BS))
/* the read loop can only speak about the escape flag if it is function-level state; if a change narrows its scope the
   scanning loop's own invariant still demands it on entry, so the loss of the state is a failed obligation, not a compile error */
#ifdef OSMT_FNLOCAL_Interpret__interpPipe_inStringEscape
#define INV_LEX_OUTER INV_LEX
#define ESC_FRAME inStringEscape,
#else
#define INV_LEX_OUTER INV_LEX_BASE
#define ESC_FRAME
#endif
#define INV_BUF (buf__live && buf__sz == (t_long)buf_sz && buf_sz >= 16 && rd_head >= 0 && rd_head < buf_sz && buf__nul == (t_long)rd_head)
#define INV_PAR (par <= i && par >= -i)

/* ---- stubs (assumed contracts of libc, the parser and the interpreter proper) ----------------------------------- */
t_int g_cmds;
t_ptrdiff read(t_int fd, void *p, t_size n) {
  __CPROVER_assert(g_ptr_live && g_ptr_off >= 0 && g_ptr_off + (t_long)n <= g_ptr_sz, "read() target range inside the live buffer");
  t_ptrdiff r = nondet_long(); __CPROVER_assume(r >= -1 && r <= (t_ptrdiff)n); return r; }
/* memchr over a ghost buffer: absent, or some position inside the searched range (which byte it is cannot be known here) */
void *memchr(const void *p, t_int c, t_size n) {
  __CPROVER_assert(g_ptr_live && g_ptr_off >= 0 && g_ptr_off + (t_long)n <= g_ptr_sz, "memchr() range inside the live buffer");
  t_long k = nondet_long(); if (nondet_bool() || n == 0) return (void *)0; __CPROVER_assume(k >= 0 && k < (t_long)n); return (void *)((t_char *)p + k); }
static t_int h_errno; static t_char h_errstr[2];
t_int *__errno_location(void) { return &h_errno; }
t_char *strerror(t_int e) { return h_errstr; }
void Interpret__notify_formatted(void *self, t_bool err, t_char *fmt, ...) { }
void Smt2newContext__ctor__char_P(struct Smt2newContext *self, t_char *in_s) {
  __CPROVER_assert(g_ptr_live && g_ptr_off == 0, "the parser is handed the start of a live command buffer"); }
t_int osmt_yyparse(struct Smt2newContext *c) { return nondet_int(); }
struct ASTNode *Smt2newContext__getRoot(struct Smt2newContext *self) { return (struct ASTNode *)0; }
void Interpret__execute(void *self, struct ASTNode *r) { g_opaque_Interpret_f_exit = nondet_bool(); g_cmds = g_cmds < 1000 ? g_cmds + 1 : g_cmds; }

/* ---- loop contracts -------------------------------------------------------------------------------------------- */
#define LOOP_FRAME_NOESC i, par, rd_head, inComment, inString, inQuotedSymbol, done, buf__nul, g_st, g_depth, g_ptr_off, g_ptr_sz, g_ptr_live, g_opaque_Interpret_f_exit, g_cmds
/* 1: while (!done) -- one read() per iteration; termination depends on the input (EOF) and is not claimed */
#define OSMT_LOOP_Interpret__interpPipe_1 \
  __CPROVER_assigns(ESC_FRAME LOOP_FRAME_NOESC, buf_sz, buf__sz, h_errno) \
  __CPROVER_loop_invariant(INV_BUF && INV_LEX_OUTER && i >= 0 && i <= rd_head && INV_PAR)
/* 2: the scanning loop */
#define OSMT_LOOP_Interpret__interpPipe_2 \
  __CPROVER_assigns(inStringEscape, LOOP_FRAME_NOESC) \
  __CPROVER_loop_invariant(INV_BUF && INV_LEX && i >= 0 && i <= rd_head && INV_PAR) \
  __CPROVER_decreases(rd_head - i)
#define OSMT_LOOPTAIL_Interpret__interpPipe_2 lex_step(c);
/* vacuity probes: each loop body must be reachable under the invariants */
#define OSMT_LOOPHEAD_Interpret__interpPipe_2 OSMT_REACH("scan loop body");
#define OSMT_LOOPHEAD_Interpret__interpPipe_3 OSMT_REACH("copy-out loop body (a command was framed)");
#define OSMT_LOOPHEAD_Interpret__interpPipe_4 OSMT_REACH("shift loop body (input left after a command)");
/* 3: copy the command to the parse buffer */
#define OSMT_LOOP_Interpret__interpPipe_3 \
  __CPROVER_assigns(j, buf_out__nul) \
  __CPROVER_loop_invariant(j >= 0 && j <= i + 1) \
  __CPROVER_decreases(i + 1 - j)
/* 4: shift the rest of the input to the front */
#define OSMT_LOOP_Interpret__interpPipe_4 \
  __CPROVER_assigns(j_2, buf__nul) \
  __CPROVER_loop_invariant(j_2 >= i + 1 && j_2 <= rd_head) \
  __CPROVER_decreases(rd_head - j_2)

#define OSMT_CONTRACT_Interpret__interpPipe \
  __CPROVER_requires(g_st == ST_INITIAL && g_depth == 0) \
  __CPROVER_assigns(g_st, g_depth, g_ptr_off, g_ptr_sz, g_ptr_live, g_opaque_Interpret_f_exit, g_cmds, h_errno) \
  __CPROVER_ensures(__CPROVER_return_value == 0)
#endif
