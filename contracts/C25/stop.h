/* C25 -- the stop request: every write and every read of the two stop flags goes through an atomic operation of
 * std::atomic<bool> (stubs with ghost counters), so that a request from another thread is not a data race; and the
 * reader functions return exactly what the flags hold.  Partial: the effect of the request on the search is not decided. */
#ifndef STOP_H
#define STOP_H
t_bool nondet_bool(void); int __osmt_thrown;
t_int g_atomic_stores, g_atomic_loads; void *g_last_atomic_obj;
t_bool std_atomic_bool__op_assign(void *self, t_bool v) { g_atomic_stores++; g_last_atomic_obj = self; ((x_std_atomic_bool *)self)->v = v; return v; }
t_bool std_atomic_bool__op_bool(void *self, ...) { g_atomic_loads++; g_last_atomic_obj = self; return ((x_std_atomic_bool *)self)->v; }
t_bool h_global;   /* what globallyStopped() returns where it is an external function */
#endif
