/* C25 -- CoreSMTSolver::checkTheory(complete, conflictC): whatever the state of the stop flags, a COMPLETE check reports
 * "consistent, go on" (TPropRes::Decide -- the search then declares a model) only after the theory solvers have actually
 * been consulted on the current trail.  A pending stop request may make the search leave with `unknown`; it must never
 * make an unchecked assignment look theory-consistent. */
#ifndef THEORY_H
#define THEORY_H
t_bool nondet_bool(void); t_int nondet_int(void); int __osmt_thrown;
t_bool g_asserted, g_checked, g_checked_complete; t_int g_tres;   /* ghost: what the theory handler was asked */
t_bool h_stop;                                                      /* a stop request is pending */
t_bool THandler__assertLits(void *self, struct vec_Lit *trail) { g_asserted = 1; return nondet_bool(); }
t_int THandler__check(void *self, t_bool complete) { __CPROVER_assert(g_asserted, "check() follows assertLits()"); g_checked = 1; g_checked_complete = complete; g_tres = nondet_int(); __CPROVER_assume(g_tres >= 0 && g_tres <= 2); return g_tres; }
t_int h_sat_result;
t_int CoreSMTSolver__handleSat(void *self) { __CPROVER_assert(g_checked && g_tres == E_TRes_SAT, "handleSat only after the theory said SAT"); return h_sat_result; }
t_int CoreSMTSolver__handleUnsat(void *self) { return E_TPropRes_Unsat; }
t_bool CoreSMTSolver__okContinue(void *self) { return !h_stop; }
t_bool CoreSMTSolver__stopped(void *self) { return h_stop; }
t_bool globallyStopped(void) { return h_stop; }
#endif
