/* C25 -- CoreSMTSolver::solve_: what a stop request may and may not do to the answer.
 * A stop request may arrive before ANY poll (another thread): okContinue is a stub that answers arbitrarily until it has said "stop" once
 * and remembers that.  search() is a stub returning an arbitrary verdict and remembering the last one.  Obligations (harness):
 *   - l_True is returned only if the last search returned l_True, and then the model is copied completely (model[k] == value(k) for an
 *     arbitrary variable k, size == nVars) -- also when a stop request arrives after the search has answered;
 *   - l_False only if the solver was already inconsistent or the last search returned l_False;
 *   - l_Undef (unknown) only if a poll observed a stop request (or the solver only dumps): a stop can turn an answer into unknown, nothing else.
 * Loop contracts on the restart loop and on the model-copy loop (one symbolic cell g_k). */
#ifndef C25_SOLVE_H
#define C25_SOLVE_H
t_bool nondet_bool(void); t_uchar nondet_uchar(void); t_int nondet_int(void); int __osmt_thrown;
#define OSMT_EXT_stderr ((FILE *)0)
#define L_TRUE 0
#define L_FALSE 1
#define L_UNDEF 2
t_int h_nvars; t_int g_k; struct lbool h_vk; t_int h_dump_only;
t_bool g_stop_seen; t_int g_searches; t_uchar g_last;
/* a request stays pending until the solver itself clears it (nothing in solve_ does): once a poll has said stop, every later poll says stop */
t_bool CoreSMTSolver__okContinue(void *self) { if (g_stop_seen) return 0; t_bool go = nondet_bool(); if (!go) g_stop_seen = 1; return go; }
struct lbool CoreSMTSolver__search(void *self, t_int n) { struct lbool r; t_uchar v = nondet_uchar(); __CPROVER_assume(v <= 2); r.value = v; g_last = v; g_searches = 1; return r; }
struct lbool CoreSMTSolver__value__Var(void *self, t_int i) { __CPROVER_assert(i >= 0 && i < h_nvars, "value of a variable of the solver"); if (i == g_k) return h_vk; struct lbool r; r.value = nondet_uchar() & 3; return r; }
t_int CoreSMTSolver__nVars(void *self) { return h_nvars; }
t_int CoreSMTSolver__nClauses(void *self) { return nondet_int(); }
t_int CoreSMTSolver__nLearnts(void *self) { return nondet_int(); }
t_int CoreSMTSolver__restartNextLimit(void *self, t_int n) { return nondet_int(); }
t_int SMTConfig__dryrun(void *self) { return nondet_int(); }
t_int SMTConfig__dump_only(void *self) { return h_dump_only; }
t_int SMTConfig__getRandomSeed(void *self) { return nondet_int(); }
t_int SMTConfig__verbosity(void *self) { return nondet_int(); }
void CoreSMTSolver__addVar__Var_f3f82e(void *self, t_int v) { }
void CoreSMTSolver__declareVarsToTheories(void *self) { }
void CoreSMTSolver__dumpCNF(void *self) { }
void CoreSMTSolver__notifyStop(void *self) { }
t_double cpuTime(void) { return 0.0; }
t_u64 memUsed(void) { return 0; }
#define fprintf(...) 0
#define fflush(f) 0
/* the model vector: size and one tracked cell */
t_int g_msz; struct lbool g_mcell, g_mother;
void vec_lbool__clear(struct vec_lbool *self) { g_msz = 0; }
void vec_lbool__growTo__int(struct vec_lbool *self, t_int size) { if (g_msz < size) g_msz = size; }
struct lbool *vec_lbool__op_index__int_68d9a7(struct vec_lbool *self, t_int i) { __CPROVER_assert(i >= 0 && i < g_msz, "model indexed inside its size"); return i == g_k ? &g_mcell : &g_mother; }
void vec_Lit__clear(struct vec_Lit *self) { }
void Lit__dtor(void *self) { }
void lbool__dtor(void *self) { }
/* loops: 1 = assumptions (empty here), 2 = restart loop, 3 = model copy */
#define OSMT_LOOP_CoreSMTSolver__solve__void_1 __CPROVER_assigns(__begin1, OSMT_TEMPS_CoreSMTSolver__solve__void) __CPROVER_loop_invariant(1)
#define OSMT_LOOP_CoreSMTSolver__solve__void_2 \
  __CPROVER_assigns(status, nof_conflicts, next_printout, g_stop_seen, g_searches, g_last, OSMT_TEMPS_CoreSMTSolver__solve__void) \
  __CPROVER_loop_invariant(status.value <= 2 && (status.value == L_UNDEF || (g_searches >= 1 && status.value == g_last)) && g_searches >= 0)
#define OSMT_LOOP_CoreSMTSolver__solve__void_3 \
  __CPROVER_assigns(i, g_mcell, g_mother, OSMT_TEMPS_CoreSMTSolver__solve__void) \
  __CPROVER_loop_invariant(i >= 0 && i <= h_nvars && g_msz == h_nvars && (i > g_k ==> g_mcell.value == h_vk.value)) \
  __CPROVER_decreases(h_nvars - i)
#endif
