/* C16 / C18 -- numeric literal classification and conversion (StringConv.h), bounded: every NUL-terminated byte string of at
 * most OSMT_N bytes, loops completely unwound (unwinding assertions on).  Reported as BOUNDED, never as proof.
 *
 * Reference ("spec") recognisers are written here from the SMT-LIB grammar and the repository's lexer rules:
 *   numeral  D+      decimal  D+ . D+      fraction  D+ / D+ (denominator value != 0),   each with an optional leading '-'
 * (leading and trailing zeros allowed: the property says "any number of leading or trailing zeros").
 * `normalize` (GMP wrapper) is an ASSUMED contract: it is handed a string "n/d" or "n", reads it in base 10 and requires a
 * non-zero denominator; the stub records its argument so that the postcondition can compare VALUES:
 *      value(argument of normalize) == value(input literal), sign flag == input had '-'.
 */
#ifndef STRCONV_H
#define STRCONV_H
t_char nondet_char(void);
int __osmt_thrown;
#ifdef OSMT_STATIC_MALLOC
/* value-only jobs for longer literals: the conversion buffer is a static block of the largest size the bound admits (cbmc's
   dynamic objects of symbolic size make the formula explode); the request is checked against the block, and the in-bounds
   obligations of the real heap block are discharged by the instrumented job at the smaller bound */
static t_char osmt_blk[4 * OSMT_N + 16]; static t_char osmt_blk1[1]; static int osmt_blk_used;
#ifdef OSMT_STATIC_MALLOC_END
/* the requested block is the LAST n bytes of the static array: a write past the requested size leaves the array and fails cbmc's own bounds obligation,
   without a dynamic object of symbolic size */
void *malloc(__CPROVER_size_t n) { if (n == 1) return osmt_blk1; __CPROVER_assert(!osmt_blk_used, "one conversion buffer per call"); __CPROVER_assert(n >= 1 && n <= sizeof(osmt_blk), "conversion buffer request within the bound's maximum"); osmt_blk_used = 1;
  return osmt_blk + (sizeof(osmt_blk) - (n <= sizeof(osmt_blk) ? n : sizeof(osmt_blk))); }
#else
void *malloc(__CPROVER_size_t n) { if (n == 1) return osmt_blk1; __CPROVER_assert(!osmt_blk_used, "one conversion buffer per call"); __CPROVER_assert(n <= sizeof(osmt_blk), "conversion buffer request within the bound's maximum"); osmt_blk_used = 1; return osmt_blk; }
#endif
void free(void *p) { }
#else
void *malloc(__CPROVER_size_t); void free(void *);
#endif
#ifndef OSMT_N
#define OSMT_N 5
#endif
/* ---- recorded call of normalize ------------------------------------------------------------------------------- */
t_int g_norm_calls; t_char g_norm_str[2 * OSMT_N + 8]; t_bool g_norm_neg; t_bool g_norm_ok;
void normalize(t_char **rat, t_char *flo, t_bool is_neg) {
  g_norm_calls++; g_norm_neg = is_neg; g_norm_ok = 0;
  for (int k = 0; k < 2 * OSMT_N + 8; k++) { g_norm_str[k] = flo[k]; if (flo[k] == 0) { g_norm_ok = 1; break; } }
  __CPROVER_assert(g_norm_ok, "normalize is handed a NUL-terminated string");
  *rat = (t_char *)malloc(1);
}
/* ---- spec: parse [D+] [sep D+] ; returns 0 if the shape does not match ------------------------------------------- */
typedef unsigned __int128 u64;   /* 128 bits: 10^(2N+8) for N <= 12 must not wrap */
struct lit { t_bool ok; u64 a; u64 b; int blen; char sep; int alen; };
static int is_dig(char c) { return c >= '0' && c <= '9'; }
static struct lit spec_parse(const char *s, int maxlen) {
  struct lit r; r.ok = 0; r.a = 0; r.b = 0; r.blen = 0; r.sep = 0; r.alen = 0;
  int i = 0;
  for (; i < maxlen && is_dig(s[i]); i++) { r.a = r.a * 10 + (u64)(s[i] - '0'); r.alen++; }
  if (r.alen == 0) return r;
  if (s[i] == 0) { r.ok = 1; return r; }
  if (s[i] != '.' && s[i] != '/') return r;
  r.sep = s[i]; i++;
  for (; i < maxlen && is_dig(s[i]); i++) { r.b = r.b * 10 + (u64)(s[i] - '0'); r.blen++; }
  if (r.blen == 0 || s[i] != 0) return r;
  r.ok = 1; return r;
}
/* x * 10^k by k conditional shift-adds (no general multiplier: 64-bit products make the SAT instance intractable beyond 5 bytes) */
static u64 scale10(u64 x, int k) { for (int i = 0; i < 2 * OSMT_N + 8; i++) if (i < k) x = (x << 3) + (x << 1); return x; }
/* k if d == 10^k (k <= 2N+8), else -1 */
static int log10exact(u64 d) { u64 p = 1; int r = -1; for (int i = 0; i < 2 * OSMT_N + 8; i++) { if (d == p) r = i; p = (p << 3) + (p << 1); } return r; }
static u64 pow10u(int k) { u64 p = 1; for (int i = 0; i < k && i < 2 * OSMT_N + 8; i++) p *= 10; return p; }
#ifdef C16_INT_LC
/* isIntString under a loop contract: the string lives in a static buffer, h_len is the position of its NUL, g_w the first non-digit after the optional sign (-1: none) */
static t_char h_s[OSMT_CAP + 1]; t_int h_len, g_w;
#define OSMT_LOOP_isIntString_1 \
  __CPROVER_assigns(i) \
  __CPROVER_loop_invariant(first <= i && i <= h_len && (g_w >= 0 ==> i <= g_w)) \
  __CPROVER_decreases(h_len - i)
#endif
#ifdef C16_REAL_LC
static t_char h_s[OSMT_CAP + 1]; static t_char h_st[OSMT_CAP + 1]; t_int h_len, g_w, h_first;
#define OSMT_LOOP_isRealString_1 \
  __CPROVER_assigns(i, state, unexpectedSymbol) \
  __CPROVER_loop_invariant(h_first <= i && i <= h_len && (t_int)state >= 0 && (t_int)state <= 7 && (g_w >= 0 ==> (i <= g_w || unexpectedSymbol)) && (h_st[i] != 9 ==> (!unexpectedSymbol && (t_int)state == (t_int)h_st[i]))) \
  __CPROVER_decreases(h_len - i)
#endif
/* characters that can occur in a numeric literal at all */
static int lit_char(char c) { return is_dig(c) || c == '.' || c == '/' || c == '-'; }
#endif
