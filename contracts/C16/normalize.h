/* C16 -- opensmt::normalize (NumberUtils.h): the literal is handed to GMP in base 10.  GMP calls are recording stubs. */
t_char nondet_char(void); int __osmt_thrown;
t_int g_base = -1; t_int g_setstr_calls;
void __gmpq_init(mpq_ptr q) { } void __gmpq_clear(mpq_ptr q) { } void __gmpq_canonicalize(mpq_ptr q) { } void __gmpq_neg(mpq_ptr a, mpq_srcptr b) { }
t_int __gmpq_set_str(mpq_ptr q, const t_char *s, t_int base) { g_base = base; g_setstr_calls++; return 0; }
t_int __gmp_asprintf(t_char **out, const t_char *fmt, ...) { *out = (t_char *)0; return 0; }
