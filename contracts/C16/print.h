/* C16 (value printing) -- ArithLogic::termToSMT2StringImpl on a numeric constant, with FastRational::get_str / print_ from
 * FastRational.cc.  The text printed for a constant must denote the constant: it is one of
 *      N      (- N)      (/ N D)      (/ (- N) D)          N, D decimal numerals, D != 0
 * and  sign * N / D  equals the value.  The constant's value is what FastRational(const char*) made of the (already
 * converted, see strconv.h) literal: any canonical machine-word rational here (stub).  std::string / streams / asprintf
 * are the concrete model of stubs/std_string.h. */
#ifndef C16_PRINT_H
#define C16_PRINT_H
#ifdef OSMT_W
#include "../C15/fr_S.h"
#define STRCAP 16
#else
#include "../C15/fr_R.h"
#endif
#include "../../stubs/std_string.h"
/* ---- the constant ------------------------------------------------------------------------------------------------------- */
struct FastRational h_val; t_char h_name[2]; t_char h_tmp[2];
t_bool ArithLogic__isNumConst__PTRef(void *self, struct PTRef t) { return 1; }
struct Pterm *Logic__getPterm__PTRef_65755a(void *self, struct PTRef t) { return (struct Pterm *)0; }
struct Pterm *Logic__getPterm__PTRef(void *self, struct PTRef t) { return (struct Pterm *)0; }
struct SymRef Pterm__symb(void *self) { struct SymRef s; s.x = 0; return s; }
t_char *SymStore__getName(void *self, struct SymRef s) { return h_name; }
t_bool stringToRational(t_char **rat, t_char *flo) { __CPROVER_assert(flo == h_name, "the constant's own name is converted"); *rat = h_tmp; return 1; }
void FastRational__ctor__char_P_int(struct FastRational *self, t_char *s) { __CPROVER_assert(s == h_tmp, "the number is built from the converted literal"); *self = h_val; }
struct osmt_string Logic__termToSMT2StringImpl(void *self, struct PTRef t, t_bool r) { __CPROVER_assert(0, "a numeric constant is printed by ArithLogic"); return s_empty(); }
/* ---- heap blocks of the function (nom, den, asprintf result) ------------------------------------------------------------ */
static __mpq_struct h_mpqs[4]; static int h_mpq_used;
void *malloc(__CPROVER_size_t n) {
  if (n == sizeof(__mpq_struct)) { __CPROVER_assert(h_mpq_used < 4, "GMP pool of the bounded model has an object left"); return &h_mpqs[h_mpq_used < 4 ? h_mpq_used++ : 0]; }
  __CPROVER_assert(n <= STRCAP, "buffer request within the block size of the bounded model"); return s_new(); }
static int g_frees;
void free(void *p) { g_frees++; }
/* ---- std::string / streams ------------------------------------------------------------------------------------------------ */
t_ulong std_basic_string_char__size(struct osmt_string *self) { return self->n; }
t_char std_basic_string_char__op_index(struct osmt_string *self, t_ulong i) { __CPROVER_assert(i <= self->n, "string index within size"); return self->p[i < STRCAP ? i : 0]; }
void std_basic_string_char__ctor__std_basic_string_char_RR(struct osmt_string *self, struct osmt_string *o) { *self = *o; }
void std_basic_string_char__ctor__std_basic_string_char_R(struct osmt_string *self, struct osmt_string *o) { *self = s_copy(o); }
void std_basic_stringstream_char__ctor(struct osmt_string *self) { *self = s_empty(); }
void std_basic_ostringstream_char__ctor(struct osmt_string *self) { *self = s_empty(); }
struct osmt_string std_basic_stringstream_char__str(struct osmt_string *self) { return s_copy(self); }
struct osmt_string std_basic_ostringstream_char__str(struct osmt_string *self) { return s_copy(self); }
struct osmt_string *op_shl__basic_ostream_char_std_char_traits_char_R_char(struct osmt_string *o, t_char c) { s_putc(o, c); return o; }
struct osmt_string *op_shl__basic_ostream_char_std_char_traits_char_R_char_P(struct osmt_string *o, t_char *s) { s_puts(o, s); return o; }
struct osmt_string *op_shl__basic_ostream_char_std_char_traits_char_R_string_R(struct osmt_string *o, struct osmt_string *s) { s_putn(o, s->p, s->n); return o; }
/* ostream::operator<<(int | unsigned | long ...): one C name for all arithmetic overloads; every argument type used converts to long long without loss */
struct osmt_string *std_basic_ostream_char__op_shl(struct osmt_string *o, long long v) { s_puti(o, v); return o; }
/* GMP's operator<<(ostream&, mpq_srcptr): the exact value when the abstract GMP model knows it (it does after negating INT_MIN) */
struct osmt_string *op_shl__std_ostream_R_mpq_srcptr(struct osmt_string *o, mpq_srcptr q) {
  __CPROVER_assert(MPQ_SET(q), "gmp-pre: printing a rational that holds a value");
#ifdef OSMT_W
  s_puti(o, (long long)q->_mp_num.g_v); if (q->_mp_den.g_v != 1) { s_putc(o, '/'); s_puti(o, (long long)q->_mp_den.g_v); } return o; }
#else
  __CPROVER_assert(q->_mp_num.g_fl && q->_mp_den.g_fl, "harness bound: GMP-held values printed here are exactly known");
  s_puti(o, q->_mp_num.g_val); if (q->_mp_den.g_val != 1) { s_putc(o, '/'); s_puti(o, q->_mp_den.g_val); } return o; }
#endif
/* asprintf with %s conversions only */
static int osmt_asprintf(t_char **out, const t_char *fmt, const t_char **args, int nargs) {
  struct osmt_string s = s_empty(); int a = 0;
  for (int i = 0; i < STRCAP; i++) { if (fmt[i] == 0) break;
    if (fmt[i] == '%') { __CPROVER_assert(fmt[i + 1] == 's', "asprintf model: %s conversions only"); __CPROVER_assert(a < nargs, "asprintf: an argument for every conversion"); s_puts(&s, args[a < nargs ? a : 0]); a++; i++; }
    else s_putc(&s, fmt[i]); }
  *out = s.p; return (int)s.n; }
#define asprintf(out, fmt, ...) osmt_asprintf(out, fmt, (const t_char *[]){ __VA_ARGS__ }, (int)(sizeof((const t_char *[]){ __VA_ARGS__ }) / sizeof(const t_char *)))
/* ---- reference reader of the four printed forms ------------------------------------------------------------------------------- */
struct printed { t_bool ok; t_bool neg; unsigned long long n, d; };
static t_bool pr_isdig(t_char c) { return c >= '0' && c <= '9'; }
static int pr_num(const t_char *s, int i, unsigned long long *v, t_bool *ok) { *v = 0; int k = 0;
  for (int j = 0; j < 12; j++) { if (!pr_isdig(s[i])) break; *v = (*v << 3) + (*v << 1) + (unsigned long long)(s[i] - '0'); i++; k++; }
  if (k == 0 || pr_isdig(s[i])) *ok = 0; return i; }
static struct printed pr_read(const t_char *s, t_ulong len) { struct printed r; r.ok = 1; r.neg = 0; r.n = 0; r.d = 1; int i = 0;
  if (s[0] == '(' && s[1] == '/' && s[2] == ' ') { i = 3;
    if (s[i] == '(') { if (!(s[i + 1] == '-' && s[i + 2] == ' ')) r.ok = 0; r.neg = 1; i = pr_num(s, i + 3, &r.n, &r.ok); if (s[i] != ')') r.ok = 0; i++; }
    else i = pr_num(s, i, &r.n, &r.ok);
    if (s[i] != ' ') r.ok = 0; i = pr_num(s, i + 1, &r.d, &r.ok); if (s[i] != ')') r.ok = 0; i++; }
  else if (s[0] == '(' && s[1] == '-' && s[2] == ' ') { r.neg = 1; i = pr_num(s, 3, &r.n, &r.ok); if (s[i] != ')') r.ok = 0; i++; }
  else i = pr_num(s, 0, &r.n, &r.ok);
  if ((unsigned long)i != (unsigned long)len || s[i] != 0) r.ok = 0; return r; }
#endif
