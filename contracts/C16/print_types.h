/* C16 printing: C shapes of the stream types (a stream is a growing string of the pool in stubs/std_string.h) */
#ifndef C16_PRINT_TYPES_H
#define C16_PRINT_TYPES_H
typedef struct osmt_string x_std_basic_stringstream_char;
typedef struct osmt_string x_std_basic_ostringstream_char;
typedef struct osmt_string x_basic_ostream_char_std_char_traits_char;
typedef struct osmt_string x_std_basic_ostream_char;
typedef struct osmt_string x_std_ostream;
#endif
