/* C29 -- ArithLogic::isNumTerm: the linearity test that mkTimes relies on.  true exactly for a variable-like term, a
 * constant, or a product of EXACTLY two factors one of which is a constant and the other variable-like; in particular a
 * product of three or more factors, or of two variables, is not a linear term.  Term store: a small arena (as for parseRef). */
#ifndef NUMTERM_H
#define NUMTERM_H
t_bool nondet_bool(void); t_uchar nondet_uchar(void); int __osmt_thrown;
#define K_VAR 0
#define K_CONST 1
#define K_PLUS 2
#define K_TIMES 3
#define K_UF 5      /* an uninterpreted application of numeric sort: "variable-like" */
#define ARENA 6
struct node { t_uchar kind; t_int nargs; t_u32 args[3]; };
struct node g_arena[ARENA];
static struct node *nd(struct PTRef t) { __CPROVER_assert(t.x < ARENA, "term reference inside the term store"); return &g_arena[t.x < ARENA ? t.x : 0]; }
t_bool ArithLogic__isNumVarLike__PTRef(void *self, struct PTRef t) { return nd(t)->kind == K_VAR || nd(t)->kind == K_UF; }
t_bool ArithLogic__isNumVar__PTRef(void *self, struct PTRef t) { return nd(t)->kind == K_VAR; }
t_bool Logic__isConstant__PTRef(void *self, struct PTRef t) { return nd(t)->kind == K_CONST; }
t_bool ArithLogic__isTimes__PTRef(void *self, struct PTRef t) { return nd(t)->kind == K_TIMES; }
struct Pterm *Logic__getPterm__PTRef_65755a(void *self, struct PTRef t) { return (struct Pterm *)nd(t); }
struct Pterm *Logic__getPterm__PTRef(void *self, struct PTRef t) { return (struct Pterm *)nd(t); }
/* further Logic queries a variant of the code may use */
t_bool ArithLogic__yieldsSortInt__PTRef(void *self, struct PTRef t) { return 1; }
t_bool ArithLogic__yieldsSortReal__PTRef(void *self, struct PTRef t) { return 0; }
struct PTRef ArithLogic__getTerm_IntOne(void *self) { struct PTRef r; r.x = 0; g_arena[0].kind = K_CONST; g_arena[0].nargs = 0; return r; }
struct PTRef ArithLogic__getTerm_RealOne(void *self) { struct PTRef r; r.x = 0; g_arena[0].kind = K_CONST; g_arena[0].nargs = 0; return r; }
t_int Pterm__size(void *self) { return ((struct node *)self)->nargs; }
struct PTRef Pterm__op_index(void *self, t_int i) { struct node *n = (struct node *)self;
  __CPROVER_assert(i >= 0 && i < n->nargs, "Pterm index is smaller than the term's size"); struct PTRef r; r.x = n->args[(i >= 0 && i < 3) ? i : 0]; return r; }
#endif
