/* C29 -- STPSolver<SafeInt>::parseRef: an atom of the declared difference logic is read as  y - x <= c  with the right
 * variables, and EVERY other normalised linear-arithmetic atom is rejected (exception) -- never read as some other
 * difference constraint, never indexed past the end of a term.
 * The term store behind the Logic calls is a small arena of nodes; the harness builds every atom shape that ArithLogic's
 * normal form allows (constant <= var | c*var | sum of 2..3 summands, each var or c*var, any integer coefficients). */
#ifndef PARSE_DELTA_H
#define PARSE_DELTA_H
#include "../C15/fr_R.h"
t_uchar nondet_uchar(void);
#define K_VAR 0
#define K_CONST 1
#define K_PLUS 2
#define K_TIMES 3
#define K_LEQ 4
#define ARENA 13
struct node { t_uchar kind; t_int nargs; t_u32 args[3]; struct FastRational val; };
struct node g_arena[ARENA];
static struct node *nd(struct PTRef t) { __CPROVER_assert(t.x < ARENA, "term reference inside the term store"); return &g_arena[t.x < ARENA ? t.x : 0]; }
t_bool ArithLogic__isLeq__PTRef(void *self, struct PTRef t) { return nd(t)->kind == K_LEQ; }
t_bool ArithLogic__isNumConst__PTRef(void *self, struct PTRef t) { return nd(t)->kind == K_CONST; }
t_bool ArithLogic__isNumVar__PTRef(void *self, struct PTRef t) { return nd(t)->kind == K_VAR; }
t_bool ArithLogic__isPlus__PTRef(void *self, struct PTRef t) { return nd(t)->kind == K_PLUS; }
t_bool ArithLogic__isTimes__PTRef(void *self, struct PTRef t) { return nd(t)->kind == K_TIMES; }
struct Pterm *Logic__getPterm__PTRef(void *self, struct PTRef t) { return (struct Pterm *)nd(t); }
struct FastRational *ArithLogic__getNumConst(void *self, struct PTRef t) { __CPROVER_assert(nd(t)->kind == K_CONST, "getNumConst is asked about a numeric constant"); return &nd(t)->val; }
t_int Pterm__size(void *self) { return ((struct node *)self)->nargs; }
struct PTRef Pterm__op_index(void *self, t_int i) {
  struct node *n = (struct node *)self;
  __CPROVER_assert(i >= 0 && i < n->nargs, "Pterm index is smaller than the term's size");
  struct PTRef r; r.x = n->args[(i >= 0 && i < 3) ? i : 0]; return r; }
struct Delta Converter_Delta__getValue__Number_R(struct FastRational *v) { struct Delta s; s.r.state = 1; s.r.num = 0; s.r.den = 1; s.r.mpq = 0; s.d = s.r; return s; }   /* the value conversion is C02's subject */
static void mk_const(t_u32 i) { g_arena[i].kind = K_CONST; g_arena[i].nargs = 0; g_arena[i].val.state = 1; g_arena[i].val.den = 1; g_arena[i].val.mpq = (mpq_ptr)0; t_word v; g_arena[i].val.num = v; }
static void mk_var(t_u32 i) { g_arena[i].kind = K_VAR; g_arena[i].nargs = 0; }
/* summand i is a variable, or (const * var) built from nodes c and v */
static void mk_summand(t_u32 i, t_u32 c, t_u32 v) {
  if (nondet_bool()) mk_var(i);
  else { g_arena[i].kind = K_TIMES; g_arena[i].nargs = 2; g_arena[i].args[0] = c; g_arena[i].args[1] = v; mk_const(c); mk_var(v); }
}
static t_bool is_neg_var(t_u32 i) { return g_arena[i].kind == K_TIMES && g_arena[g_arena[i].args[0]].val.num == -1; }
#endif
