/* C14 -- term constructors return equivalent terms: the simplifying Boolean constructors of Logic.
 *
 * View: a small term arena.  Every term has a DENOTATION under one arbitrary but fixed interpretation (ghost value chosen by
 * the harness: a truth value for Bool terms, an element of a 4-element domain for the uninterpreted sort).  `Logic::mkFun`, the
 * one function that really builds an application term, is a stub with the ASSUMED contract "returns THE term f(args)
 * (hash-consed) whose denotation is f applied to the denotations of args".  The obligation on each constructor is then
 *      denotation(result) == operator(denotations of the arguments)
 * for every choice of arguments and every interpretation -- SMT-LIB equivalence of the simplified term and the plain
 * application -- plus: the result is a term of the store, of Boolean sort (ite: of the branches' sort). */
#ifndef C14_BOOL_H
#define C14_BOOL_H
t_bool nondet_bool(void); t_uchar nondet_uchar(void); int __osmt_thrown;
#ifdef C14_NO_SYMREF   /* a job whose lowered code never mentions SymRef (all callees by contract) */
struct SymRef { t_u32 x; };
#endif
#define K_TRUE 1
#define K_FALSE 2
#define K_ATOM 3      /* Boolean variable / uninterpreted Boolean atom */
#define K_UVAR 4      /* variable of the uninterpreted sort */
#define K_UCONST 5    /* constant (abstract value) of the uninterpreted sort */
#define K_NOT 10
#define K_AND 11
#define K_OR 12
#define K_XOR 13
#define K_EQ 14
#define K_ITE 15
#define K_DISTINCT 16
#define S_BOOL 0
#define S_U 1
#define NT 18
struct node { t_uchar kind; t_uchar sort; t_int n; t_u32 a[3]; t_int den; };
struct node g_t[NT]; t_int g_nt;
#define T_TRUE 0u
#define T_FALSE 1u
static struct node *nd(struct PTRef t) { __CPROVER_assert(t.x < (t_u32)g_nt, "term reference inside the term store"); return &g_t[t.x < NT ? t.x : 0]; }
static t_int den_of(t_u32 x) { return g_t[x < NT ? x : 0].den; }
static struct PTRef h_mk(t_uchar kind, t_uchar sort, t_int den) { __CPROVER_assert(g_nt < NT, "term store large enough for the harness"); struct PTRef r; r.x = (t_u32)g_nt; g_t[g_nt].kind = kind; g_t[g_nt].sort = sort; g_t[g_nt].n = 0; g_t[g_nt].den = den; g_nt++; return r; }
static void h_init(void) { g_nt = 0; h_mk(K_TRUE, S_BOOL, 1); h_mk(K_FALSE, S_BOOL, 0); }
/* ---- Logic queries -------------------------------------------------------------------------------------------- */
t_bool Logic__hasSortBool__PTRef(void *self, struct PTRef t) { return nd(t)->sort == S_BOOL; }
t_bool Logic__isNot__PTRef(void *self, struct PTRef t) { return nd(t)->kind == K_NOT; }
t_bool Logic__isTrue__PTRef(void *self, struct PTRef t) { return t.x == T_TRUE; }
t_bool Logic__isFalse__PTRef(void *self, struct PTRef t) { return t.x == T_FALSE; }
t_bool Logic__isConstant__PTRef(void *self, struct PTRef t) { t_uchar k = nd(t)->kind; return k == K_TRUE || k == K_FALSE || k == K_UCONST; }
struct PTRef Logic__getTerm_true(void *self) { struct PTRef r; r.x = T_TRUE; return r; }
struct PTRef Logic__getTerm_false(void *self) { struct PTRef r; r.x = T_FALSE; return r; }
#ifdef C14_SORTS
struct SRef Logic__getSortRef__PTRef(void *self, struct PTRef t) { struct SRef s; s.x = nd(t)->sort; return s; }
struct SRef Logic__getSort_bool(void *self) { struct SRef s; s.x = S_BOOL; return s; }
#endif
struct SymRef Logic__getSym_not(void *self) { struct SymRef s; s.x = K_NOT; return s; }
struct SymRef Logic__getSym_and(void *self) { struct SymRef s; s.x = K_AND; return s; }
struct SymRef Logic__getSym_or(void *self) { struct SymRef s; s.x = K_OR; return s; }
struct SymRef Logic__getSym_xor(void *self) { struct SymRef s; s.x = K_XOR; return s; }
struct Pterm *Logic__getPterm__PTRef(void *self, struct PTRef t) { return (struct Pterm *)nd(t); }
t_int Pterm__size(void *self) { return ((struct node *)self)->n; }
struct PTRef Pterm__op_index(void *self, t_int i) { struct node *n = (struct node *)self;
  __CPROVER_assert(i >= 0 && i < n->n, "Pterm index is smaller than the term's size"); struct PTRef r; r.x = n->a[(i >= 0 && i < 3) ? i : 0]; return r; }
/* sortToIte / sortToEquality: every sort has its ite and equality symbol */
#ifdef C14_MAPS
struct SymRef h_sym_eq = { K_EQ }, h_sym_ite = { K_ITE };
t_bool Map_SRef_SymRef_SRefHash_Equal_SRef__has(struct Map_SRef_SymRef_SRefHash_Equal_SRef *self, struct SRef *k) { return 1; }
struct SymRef *Map_SRef_SymRef_SRefHash_Equal_SRef__op_index__SRef_R_646f1c(struct Map_SRef_SymRef_SRefHash_Equal_SRef *self, struct SRef *k) {
#ifdef C14_ITE
  return &h_sym_ite;
#else
  return &h_sym_eq;
#endif
}
#endif
/* ---- the constructor of application terms (assumed contract) ------------------------------------------------------ */
static t_int h_eval(t_uchar kind, t_int n, const t_u32 *a) {
  t_int d0 = den_of(a[0]), d1 = n > 1 ? den_of(a[1]) : 0, d2 = n > 2 ? den_of(a[2]) : 0;
  switch (kind) {
    case K_NOT: return !d0;
    case K_AND: return d0 && (n < 2 || d1) && (n < 3 || d2);
    case K_OR:  return d0 || (n > 1 && d1) || (n > 2 && d2);
    case K_XOR: return (d0 != 0) != (d1 != 0);
    case K_EQ:  return d0 == d1;
    case K_ITE: return d0 ? d1 : d2;
    case K_DISTINCT: return d0 != d1 && (n < 3 || (d0 != d2 && d1 != d2));
  }
  __CPROVER_assert(0, "mkFun is asked for a known symbol"); return 0; }
t_int g_mkfun_calls;
struct PTRef Logic__mkFun(void *self, struct SymRef s, struct vec_PTRef *args) {
  t_int n = args->sz; t_uchar kind = (t_uchar)s.x; g_mkfun_calls++;
  __CPROVER_assert(n >= 1 && n <= 3, "application of one to three arguments (arena bound)");
  __CPROVER_assert((kind == K_NOT && n == 1) || ((kind == K_AND || kind == K_OR) && n >= 2) || ((kind == K_XOR || kind == K_EQ) && n == 2) || (kind == K_ITE && n == 3) || (kind == K_DISTINCT && n >= 2), "arity matches the symbol");
  t_u32 a[3] = { 0, 0, 0 };
  for (t_int i = 0; i < 3; i++) if (i < n) { a[i] = args->data[i].x; __CPROVER_assert(a[i] < (t_u32)g_nt, "argument is a term of the store"); }
  for (t_int i = 0; i < 3; i++) if (i < n && kind != K_EQ && kind != K_DISTINCT && !(kind == K_ITE && i > 0)) __CPROVER_assert(g_t[a[i] < NT ? a[i] : 0].sort == S_BOOL, "Boolean connective applied to Boolean arguments");
  if (kind == K_EQ || kind == K_ITE) __CPROVER_assert(g_t[a[n - 2] < NT ? a[n - 2] : 0].sort == g_t[a[n - 1] < NT ? a[n - 1] : 0].sort, "both sides / both branches have the same sort");
  /* hash-consing: the same application is the same term */
  for (t_int k = 0; k < NT; k++) if (k < g_nt && g_t[k].kind == kind && g_t[k].n == n && g_t[k].a[0] == a[0] && (n < 2 || g_t[k].a[1] == a[1]) && (n < 3 || g_t[k].a[2] == a[2])) { struct PTRef r; r.x = (t_u32)k; return r; }
  struct PTRef r = h_mk(kind, kind == K_ITE ? g_t[a[1] < NT ? a[1] : 0].sort : S_BOOL, h_eval(kind, n, a));
  g_t[r.x < NT ? r.x : 0].n = n; for (t_int i = 0; i < 3; i++) g_t[r.x < NT ? r.x : 0].a[i] = a[i];
  return r; }
static struct PTRef h_app(t_uchar kind, t_int n, t_u32 a0, t_u32 a1, t_u32 a2) {   /* harness-side construction through the same stub */
  struct PTRef d[3]; d[0].x = a0; d[1].x = a1; d[2].x = a2; struct vec_PTRef v; v.data = d; v.sz = n; v.cap = 3; struct SymRef s; s.x = kind; return Logic__mkFun((void *)0, s, &v); }
/* ---- callee contracts used when a constructor calls another one (modular: the callee's own job discharges exactly this postcondition) ---- */
static struct PTRef h_by_contract(t_int den) { struct PTRef r = h_mk(K_ATOM, S_BOOL, den != 0); return r; }   /* some Boolean term with the stated denotation */
#ifdef C14_USE_mkNot
struct PTRef Logic__mkNot__PTRef(void *self, struct PTRef a) { __CPROVER_assert(nd(a)->sort == S_BOOL, "mkNot is given a Boolean term"); return h_by_contract(!den_of(a.x)); }
#endif
#ifdef C14_USE_mkOr
struct PTRef Logic__mkOr__vec_PTRef_RR(void *self, struct vec_PTRef *args) { t_int n = args->sz; __CPROVER_assert(n >= 0 && n <= 3, "arena bound"); t_bool d = 0;
  for (t_int i = 0; i < 3; i++) if (i < n) { __CPROVER_assert(nd(args->data[i])->sort == S_BOOL, "mkOr is given Boolean terms"); d = d || den_of(args->data[i].x); } return h_by_contract(d); }
#endif
#ifdef C14_USE_mkAnd
struct PTRef Logic__mkAnd__vec_PTRef_RR(void *self, struct vec_PTRef *args) { t_int n = args->sz; __CPROVER_assert(n >= 0 && n <= 3, "arena bound"); t_bool d = 1;
  for (t_int i = 0; i < 3; i++) if (i < n) { __CPROVER_assert(nd(args->data[i])->sort == S_BOOL, "mkAnd is given Boolean terms"); d = d && den_of(args->data[i].x); } return h_by_contract(d); }
#endif
#ifdef C14_USE_mkEq
struct PTRef Logic__mkEq__vec_PTRef_RR(void *self, struct vec_PTRef *args) { __CPROVER_assert(args->sz == 2, "mkEq is used on two arguments here"); struct PTRef a = args->data[0], b = args->data[1];
  __CPROVER_assert(nd(a)->sort == nd(b)->sort, "mkEq is given terms of one sort"); return h_by_contract(den_of(a.x) == den_of(b.x)); }
#endif
#ifdef C14_DISTINCT
/* the general distinct term is built directly through the term store (not through mkFun): the store operations are the trusted constructors here */
struct SymRef PtStore__lookupSymbol(void *self, const t_char *name, struct vec_PTRef *args) { struct SymRef s; s.x = K_DISTINCT; return s; }
t_bool Logic__isBooleanOperator__SymRef(void *self, struct SymRef s) { return s.x != K_DISTINCT && s.x != K_EQ && s.x != K_ITE; }
static t_int h_find_app(t_u32 kind, struct vec_PTRef *a) { t_int n = a->sz; for (t_int k = 0; k < NT; k++) if (k < g_nt && g_t[k].kind == kind && g_t[k].n == n && g_t[k].a[0] == a->data[0].x && (n < 2 || g_t[k].a[1] == a->data[1].x) && (n < 3 || g_t[k].a[2] == a->data[2].x)) return k; return -1; }
t_bool PtStore__hasCplxKey(void *self, struct PTLKey *k) { __CPROVER_assert(k->args.sz >= 1 && k->args.sz <= 3, "arena bound"); return h_find_app(k->sym.x, &k->args) >= 0; }
struct PTRef PtStore__getFromCplxMap(void *self, struct PTLKey *k) { t_int i = h_find_app(k->sym.x, &k->args); __CPROVER_assert(i >= 0, "map read after a positive membership test"); struct PTRef r; r.x = (t_u32)(i >= 0 ? i : 0); return r; }
struct PTRef PtStore__newTerm(void *self, struct SymRef s, struct vec_PTRef *args) { return Logic__mkFun(self, s, args); }
void PtStore__addToCplxMap(void *self, struct PTLKey *k, struct PTRef tr) { __CPROVER_assert(h_find_app(k->sym.x, &k->args) == (t_int)tr.x, "the term registered under a key is the application the key describes"); }
#endif
#ifdef C14_USE_mkBinaryEq
struct PTRef Logic__mkBinaryEq(void *self, struct PTRef a, struct PTRef b) { __CPROVER_assert(nd(a)->sort == nd(b)->sort, "mkBinaryEq is given terms of one sort"); return h_by_contract(den_of(a.x) == den_of(b.x)); }
#endif
/* ---- libc / container plumbing ---------------------------------------------------------------------------------------- */
static t_int h_errno; t_int *__errno_location(void) { return &h_errno; }
#define printf(...) 0
/* vec<T> storage: vec<T>::capacity() (the only caller of realloc) hands out typed blocks of a static pool; a block holds every vector the bounded harness
   builds, so growing keeps the block and its contents */
#define VCAP 4
static struct PTRef h_pt_pool[10][VCAP]; static t_int h_pt_blocks;
void vec_PTRef__capacity__int(struct vec_PTRef *self, t_int min_cap) { __CPROVER_assert(min_cap <= VCAP, "vector within the arena bound");
  if (self->data == (struct PTRef *)0) { __CPROVER_assert(h_pt_blocks < 10, "pool has a block left"); self->data = h_pt_pool[h_pt_blocks < 10 ? h_pt_blocks : 0]; h_pt_blocks++; } self->cap = VCAP; }
#ifdef C14_SORTCALL
static struct PtAsgn h_pa_pool[4][VCAP]; static t_int h_pa_blocks;
void vec_PtAsgn__capacity__int(struct vec_PtAsgn *self, t_int min_cap) { __CPROVER_assert(min_cap <= VCAP, "vector within the arena bound");
  if (self->data == (struct PtAsgn *)0) { __CPROVER_assert(h_pa_blocks < 4, "pool has a block left"); self->data = h_pa_pool[h_pa_blocks < 4 ? h_pa_blocks : 0]; h_pa_blocks++; } self->cap = VCAP; }
#endif
void free(void *p) { }
void PTRef__dtor(void *self) { }
void PtAsgn__dtor(void *self) { }
#ifdef C14_TERMSORT_SORTS
/* Logic::termSort as a real sort (ascending reference): mkDistinct finds repeated arguments by comparing neighbours, so here the order matters */
void Logic__termSort(void *self, struct vec_PTRef *v) { t_int n = v->sz; __CPROVER_assert(n >= 0 && n <= 3, "at most three elements (arena bound)");
  for (int pass = 0; pass < 3; pass++) for (int i = 0; i + 1 < 3; i++) if (i + 1 < n && v->data[i].x > v->data[i + 1].x) { struct PTRef t = v->data[i]; v->data[i] = v->data[i + 1]; v->data[i + 1] = t; } }
#else
/* Logic::termSort: ANY permutation of the argument vector */
void Logic__termSort(void *self, struct vec_PTRef *v) {
  t_int n = v->sz; __CPROVER_assert(n >= 0 && n <= 3, "at most three elements (arena bound)");
  if (n >= 2 && nondet_bool()) { struct PTRef t = v->data[0]; v->data[0] = v->data[1]; v->data[1] = t; }
  if (n >= 3 && nondet_bool()) { struct PTRef t = v->data[1]; v->data[1] = v->data[2]; v->data[2] = t; }
  if (n >= 2 && nondet_bool()) { struct PTRef t = v->data[0]; v->data[0] = v->data[1]; v->data[1] = t; } }
#endif
#ifdef C14_SORTCALL
/* std::sort over at most three PtAsgn: ANY permutation (the equivalence obligation must not depend on the order) */
void sort(struct PtAsgn *b, struct PtAsgn *e, struct LessThan_PtAsgn cmp) {
  t_long n = e - b; __CPROVER_assert(n >= 0 && n <= 3, "at most three elements (arena bound)");
  if (n >= 2 && nondet_bool()) { struct PtAsgn t = b[0]; b[0] = b[1]; b[1] = t; }
  if (n >= 3 && nondet_bool()) { struct PtAsgn t = b[1]; b[1] = b[2]; b[2] = t; }
  if (n >= 2 && nondet_bool()) { struct PtAsgn t = b[0]; b[0] = b[1]; b[1] = t; } }
#endif
struct PTRef *std_initializer_list_PTRef__begin(struct osmt_ilist *self) { return (struct PTRef *)self->p; }
struct PTRef *std_initializer_list_PTRef__end(struct osmt_ilist *self) { return (struct PTRef *)self->p + self->n; }
t_ulong std_initializer_list_PTRef__size(struct osmt_ilist *self) { return self->n; }
#endif
