/* C14 (arithmetic part) -- ArithLogic::mkNeg: the result denotes the negation of the argument.
 * Same view as bool.h: a term arena, every term with a denotation under one arbitrary integer interpretation; mkFun and mkConst
 * are the trusted constructors (assumed contracts: the application / the constant with the given value), with normal-form
 * obligations at each call (a product is constant * variable-like).  Constants hold their value as a real FastRational. */
#ifndef C14_ARITH_H
#define C14_ARITH_H
#include "../C15/fr_R.h"
t_bool nondet_bool(void); t_uchar nondet_uchar(void); t_int nondet_int(void);
#define K_CONST 1
#define K_VAR 2
#define K_UF 3          /* variable-like: an uninterpreted application of numeric sort */
#define K_PLUS 10
#define K_TIMES 11
#define NT 16
#define LEAFSYM 1000u
struct node { t_uchar kind; t_int n; struct PTRef a[3]; t_int den; struct FastRational val; };
struct node g_t[NT]; t_int g_nt;
static struct node *nd(struct PTRef t) { __CPROVER_assert(t.x < (t_u32)g_nt, "term reference inside the term store"); return &g_t[t.x < NT ? t.x : 0]; }
static t_int den_of(t_u32 x) { return g_t[x < NT ? x : 0].den; }
static struct PTRef h_leaf(t_uchar kind, t_int den) { __CPROVER_assert(g_nt < NT, "term store large enough for the harness"); struct PTRef r; r.x = (t_u32)g_nt; struct node *p = &g_t[g_nt < NT ? g_nt : 0];
  p->kind = kind; p->n = 0; p->den = den; p->val.state = 1; p->val.num = den; p->val.den = 1; p->val.mpq = (mpq_ptr)0; g_nt++; return r; }
static struct PTRef h_const(t_int v) { for (int k = 0; k < NT; k++) if (k < g_nt && g_t[k].kind == K_CONST && g_t[k].den == v) { struct PTRef r; r.x = (t_u32)k; return r; } return h_leaf(K_CONST, v); }
#define T_MINUS1 0u
#define T_ONE 1u
static void h_init(void) { g_nt = 0; h_leaf(K_CONST, -1); h_leaf(K_CONST, 1); }
static t_bool is_leafsym(struct SymRef s) { return s.x >= LEAFSYM && s.x < LEAFSYM + NT; }
static t_uchar leafkind(struct SymRef s) { return g_t[(s.x - LEAFSYM) < NT ? (s.x - LEAFSYM) : 0].kind; }
/* ---- queries --------------------------------------------------------------------------------------------------------------- */
t_bool ArithLogic__isNeg__PTRef(void *self, struct PTRef t) { return 0; }          /* there is no unary-minus node (the code's own invariant) */
struct SymRef Logic__getSymRef(void *self, struct PTRef t) { struct SymRef s; struct node *p = nd(t); s.x = (p->kind == K_PLUS || p->kind == K_TIMES) ? p->kind : LEAFSYM + t.x; return s; }
t_bool Logic__isConstant__SymRef(void *self, struct SymRef s) { return is_leafsym(s) && leafkind(s) == K_CONST; }
t_bool Logic__isConstant__PTRef(void *self, struct PTRef t) { return nd(t)->kind == K_CONST; }
t_bool ArithLogic__isNumVarLike__SymRef(void *self, struct SymRef s) { return is_leafsym(s) && (leafkind(s) == K_VAR || leafkind(s) == K_UF); }
t_bool ArithLogic__isNumVarLike__PTRef(void *self, struct PTRef t) { return nd(t)->kind == K_VAR || nd(t)->kind == K_UF; }
t_bool ArithLogic__isPlus__SymRef(void *self, struct SymRef s) { return s.x == K_PLUS; }
t_bool ArithLogic__isTimes__SymRef(void *self, struct SymRef s) { return s.x == K_TIMES; }
t_bool ArithLogic__isTimes__PTRef(void *self, struct PTRef t) { return nd(t)->kind == K_TIMES; }
t_bool ArithLogic__yieldsSortInt__PTRef(void *self, struct PTRef t) { return 1; }
t_bool ArithLogic__yieldsSortReal__PTRef(void *self, struct PTRef t) { return 0; }
struct SRef Logic__getSortRef__PTRef(void *self, struct PTRef t) { struct SRef s; s.x = 1; return s; }
struct SRef Logic__getSortRef__SymRef(void *self, struct SymRef t) { struct SRef s; s.x = 1; return s; }
struct SymRef ArithLogic__getTimesForSort(void *self, struct SRef s) { struct SymRef r; r.x = K_TIMES; return r; }
struct PTRef ArithLogic__getMinusOneForSort(void *self, struct SRef s) { struct PTRef r; r.x = T_MINUS1; return r; }
struct PTRef ArithLogic__getTerm_IntOne(void *self) { struct PTRef r; r.x = T_ONE; return r; }
struct PTRef ArithLogic__getTerm_RealOne(void *self) { struct PTRef r; r.x = T_ONE; return r; }
struct FastRational *ArithLogic__getNumConst(void *self, struct PTRef t) { __CPROVER_assert(nd(t)->kind == K_CONST, "the value of a constant is read"); return &nd(t)->val; }
struct Pterm *Logic__getPterm__PTRef(void *self, struct PTRef t) { return (struct Pterm *)nd(t); }
struct Pterm *Logic__getPterm__PTRef_65755a(void *self, struct PTRef t) { return (struct Pterm *)nd(t); }
t_int Pterm__size(void *self) { return ((struct node *)self)->n; }
struct PTRef Pterm__op_index(void *self, t_int i) { struct node *n = (struct node *)self; __CPROVER_assert(i >= 0 && i < n->n, "Pterm index is smaller than the term's size"); return n->a[(i >= 0 && i < 3) ? i : 0]; }
struct PTRef *Pterm__begin(void *self) { return &((struct node *)self)->a[0]; }
struct PTRef *Pterm__end(void *self) { struct node *n = (struct node *)self; return &n->a[0] + n->n; }
/* ---- trusted constructors ---------------------------------------------------------------------------------------------------- */
struct PTRef ArithLogic__mkConst__SRef_Number_R(void *self, struct SRef s, struct FastRational *v) {
  __CPROVER_assert(FR_WORD(v) && v->den == 1, "harness bound: integer constants that fit the machine word");
  return h_const(v->num); }
struct PTRef Logic__mkFun(void *self, struct SymRef s, struct vec_PTRef *args) {
  t_int n = args->sz; t_uchar kind = (t_uchar)s.x;
  __CPROVER_assert((kind == K_TIMES && n == 2) || (kind == K_PLUS && n >= 2 && n <= 3), "mkFun is asked for a product of two or a sum of two to three terms");
  struct PTRef a[3]; for (int i = 0; i < 3; i++) { a[i].x = 0; if (i < n) { a[i] = args->data[i]; __CPROVER_assert(a[i].x < (t_u32)g_nt, "argument is a term of the store"); } }
  if (kind == K_TIMES) { t_uchar k0 = g_t[a[0].x < NT ? a[0].x : 0].kind, k1 = g_t[a[1].x < NT ? a[1].x : 0].kind;
    __CPROVER_assert((k0 == K_CONST && (k1 == K_VAR || k1 == K_UF)) || (k1 == K_CONST && (k0 == K_VAR || k0 == K_UF)), "normal form: a product is constant * variable-like"); }
  for (int k = 0; k < NT; k++) if (k < g_nt && g_t[k].kind == kind && g_t[k].n == n && g_t[k].a[0].x == a[0].x && g_t[k].a[1].x == a[1].x && (n < 3 || g_t[k].a[2].x == a[2].x)) { struct PTRef r; r.x = (t_u32)k; return r; }
  t_int d;
  if (kind == K_TIMES) {   /* constant * variable by case analysis on the (small) constant: no general multiplier in the SAT instance */
    t_int c = g_t[a[0].x < NT ? a[0].x : 0].kind == K_CONST ? den_of(a[0].x) : den_of(a[1].x), v = g_t[a[0].x < NT ? a[0].x : 0].kind == K_CONST ? den_of(a[1].x) : den_of(a[0].x);
    __CPROVER_assert(c >= -3 && c <= 3, "harness bound: constants between -3 and 3");
    d = c == 0 ? 0 : c == 1 ? v : c == -1 ? -v : c == 2 ? v + v : c == -2 ? -(v + v) : c == 3 ? v + v + v : -(v + v + v); }
  else d = den_of(a[0].x) + den_of(a[1].x) + (n > 2 ? den_of(a[2].x) : 0);
  struct PTRef r = h_leaf(kind, d); struct node *p = &g_t[r.x < NT ? r.x : 0]; p->n = n; for (int i = 0; i < 3; i++) p->a[i] = a[i]; return r; }
static struct PTRef h_app(t_uchar kind, t_int n, t_u32 a0, t_u32 a1, t_u32 a2) { struct PTRef d[3]; d[0].x = a0; d[1].x = a1; d[2].x = a2; struct vec_PTRef v; v.data = d; v.sz = n; v.cap = 3; struct SymRef s; s.x = kind; return Logic__mkFun((void *)0, s, &v); }
/* ---- plumbing ---------------------------------------------------------------------------------------------------------------------- */
static t_int h_errno; t_int *__errno_location(void) { return &h_errno; }
#define VCAP 4
static struct PTRef h_pt_pool[10][VCAP]; static int h_pt_blocks;
void vec_PTRef__capacity__int(struct vec_PTRef *self, t_int min_cap) { __CPROVER_assert(min_cap <= VCAP, "vector within the arena bound");
  if (self->data == (struct PTRef *)0) { __CPROVER_assert(h_pt_blocks < 10, "pool has a block left"); self->data = h_pt_pool[h_pt_blocks < 10 ? h_pt_blocks : 0]; h_pt_blocks++; } self->cap = VCAP; }
void free(void *p) { }
void PTRef__dtor(void *self) { }
struct PTRef *std_initializer_list_PTRef__begin(struct osmt_ilist *self) { return (struct PTRef *)self->p; }
struct PTRef *std_initializer_list_PTRef__end(struct osmt_ilist *self) { return (struct PTRef *)self->p + self->n; }
t_ulong std_initializer_list_PTRef__size(struct osmt_ilist *self) { return self->n; }
#endif
