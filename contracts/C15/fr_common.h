/* Representation predicates of opensmt::FastRational over the lowered struct (shared by R and S). */
#ifndef FR_COMMON_H
#define FR_COMMON_H
#define FR_STATE_OK(x) ((x)->state == 1 || (x)->state == 3 || (x)->state == 6 || (x)->state == 7)
#define FR_WORD(x)   (((x)->state & 1) != 0)
#define FR_MPQMEM(x) (((x)->state & 2) != 0)
#define FR_MPQVAL(x) (((x)->state & 4) != 0)
#endif
