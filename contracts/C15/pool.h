/* C24 -- FastRational::mpqPool::alloc / release: every access to the process-wide pool containers happens while the pool's
 * own mutex is held.  std::stack, std::mutex, std::lock_guard are stubs with their standard contracts plus a ghost "held"
 * flag; the lock_guard destructor (unlock at scope exit) is kept by the lowering as a scope-exit stub call,
 * so the lock is held exactly from construction to the end of the enclosing block. */
#ifndef POOL_H
#define POOL_H
t_bool nondet_bool(void); void *malloc(__CPROVER_size_t); int __osmt_thrown;
void *g_held_mutex;            /* ghost: the mutex currently held by this thread (0 = none) */
struct FastRational__mpqPool *g_pool_obj;   /* the pool the call works on */
t_int g_pool_size; mpq_ptr g_pool_top; t_int g_store_size;
/* lock_guard destructor at scope exit (kept by the lowering for lock objects): the mutex is released */
#define OSMT_SCOPE_EXIT_std_lock_guard_std_mutex(l) (__CPROVER_assert(g_held_mutex != (void *)0, "unlock of a held mutex"), g_held_mutex = (void *)0)
#define POOL_LOCKED(what) __CPROVER_assert(g_held_mutex == (void *)&g_pool_obj->mtx, "shared pool container accessed while the pool mutex is held: " what)
void std_lock_guard_std_mutex__ctor__std_lock_guard_std_mutex___mutex_type_R(x_std_lock_guard_std_mutex *self, x_std_lock_guard_std_mutex___mutex_type *m) {
  __CPROVER_assert(g_held_mutex == (void *)0, "no lock is taken twice (std::mutex is not recursive)"); g_held_mutex = (void *)m; }
t_bool std_stack___mpq_struct_P_std_vector___mpq_struct_P__empty(void *self, ...) { POOL_LOCKED("pool.empty()"); return g_pool_size == 0; }
__mpq_struct **std_stack___mpq_struct_P_std_vector___mpq_struct_P__top(void *self, ...) { POOL_LOCKED("pool.top()"); __CPROVER_assert(g_pool_size > 0, "top() of a non-empty stack"); return &g_pool_top; }
void std_stack___mpq_struct_P_std_vector___mpq_struct_P__pop(void *self, ...) { POOL_LOCKED("pool.pop()"); __CPROVER_assert(g_pool_size > 0, "pop() of a non-empty stack"); g_pool_size--; }
void std_stack___mpq_struct_P_std_vector___mpq_struct_P__push(void *self, ...) { POOL_LOCKED("pool.push()"); if (g_pool_size < 1000) g_pool_size++; }
x___gmp_expr_mpq_t_mpq_t *std_stack___gmp_expr_mpq_t_mpq_t__emplace(void *self, ...) { POOL_LOCKED("store.emplace()"); x___gmp_expr_mpq_t_mpq_t *o = malloc(sizeof(*o)); o->q._mp_num.g_init = 1; o->q._mp_den.g_init = 1; if (g_store_size < 1000) g_store_size++; return o; }
__mpq_struct *__gmp_expr_mpq_t_mpq_t__get_mpq_t(void *self, ...) { return &((x___gmp_expr_mpq_t_mpq_t *)self)->q; }
#endif
