/* C15 / C27 / C24 -- contracts of opensmt::FastRational at REAL width (R tier, counted as proof).
 *
 * Included by every R job after the lowered types and prototypes (OSMT_MID_INCLUDE).
 * Postconditions come from the property statement: well-formed representation in, well-formed representation
 * out, operands keep their value, results that fit a machine word are held in the machine word, no GMP call on an
 * object in the wrong typestate, and -- where SAT can do the arithmetic at 32/64 bit -- the exact value.
 * The gcd-reduced value postconditions are NOT here (undecidable for the installed back ends at 64 bit); they are
 * discharged exhaustively at scaled width in fr_S.h and reported as bounded.
 */
#ifndef FR_R_H
#define FR_R_H
#include "fr_common.h"
#include "../../stubs/gmp_R.h"

/* ---- representation invariant (value form `v` is a struct lvalue) ------------------------------------------- */
#define FRV_WF1(v) FR_STATE_OK(&(v))
#define FRV_WF2(v) (!FR_WORD(&(v))   || ((v).den >= 1 && ((v).num != 0 || (v).den == 1)))
#define FRV_WF3(v) (!FR_MPQMEM(&(v)) || MPQ_INIT((v).mpq))
#define FRV_WF4(v) (!FR_MPQVAL(&(v)) || (MPQ_SET((v).mpq) && MPQ_CONS((v).mpq)))
#define FRV_WF5(v) (FR_WORD(&(v))    || !MPQ_FITS((v).mpq))
#define FRV_WF6(v) (!(FR_WORD(&(v)) && FR_MPQVAL(&(v))) || ((v).mpq->_mp_num.g_fl && (v).mpq->_mp_num.g_val == (t_long)(v).num \
                                               && (v).mpq->_mp_den.g_fl && (v).mpq->_mp_den.g_val == (t_long)(v).den))
#define FRV_WF_R(v) (FRV_WF1(v) && FRV_WF2(v) && FRV_WF3(v) && FRV_WF4(v) && FRV_WF5(v) && FRV_WF6(v))
/* the same as separate ensures clauses, so that a failing conjunct is named by its ordinal */
/* ensures side: without the canonical-zero conjunct (it is a consequence of coprimality, which R cannot state on its inputs; S proves it) */
#define FRV_WF2_OUT(v) (!FR_WORD(&(v)) || ((v).den >= 1))
#define FRV_WF_ENS(v) __CPROVER_ensures(FRV_WF1(v)) __CPROVER_ensures(FRV_WF2_OUT(v)) __CPROVER_ensures(FRV_WF3(v)) \
                      __CPROVER_ensures(FRV_WF4(v)) __CPROVER_ensures(FRV_WF5(v)) __CPROVER_ensures(FRV_WF6(v))
#define FR_WF_ENS(x) FRV_WF_ENS(*(x))
#define FR_WF_R(x) FRV_WF_R(*(x))
/* an operand: a fresh object, its mpq (if the state says it owns one) a fresh GMP object, representation well-formed */
#define FR_OPERAND(x) \
  __CPROVER_requires(__CPROVER_is_fresh(x, sizeof(*(x)))) \
  __CPROVER_requires(FR_MPQMEM(x) ? __CPROVER_is_fresh((x)->mpq, sizeof(__mpq_struct)) : ((x)->mpq == (mpq_ptr)0)) \
  __CPROVER_requires(FR_WF_R(x))
/* an operand is only ever touched in its mutable cache (state, mpq) and keeps its value */
#define FR_UNCHANGED(x) ( FR_WF_R(x) && (x)->num == __CPROVER_old((x)->num) && (x)->den == __CPROVER_old((x)->den) \
                          && FR_WORD(x) == FR_WORD_OLD(x) )
#define FR_NONZERO(x) (FR_WORD(x) ? (x)->num != 0 : (x)->mpq->_mp_num.g_sgn != 0)
#define FR_SIGN(x)    (FR_WORD(x) ? (((x)->num > 0) - ((x)->num < 0)) : (x)->mpq->_mp_num.g_sgn)
#define FRV_SIGN(v)   (FR_WORD(&(v)) ? (((v).num > 0) - ((v).num < 0)) : (v).mpq->_mp_num.g_sgn)
#define FR_WORD_OLD(x) ((__CPROVER_old((x)->state) & 1) != 0)
#define WW(a, b) (FR_WORD_OLD(a) && FR_WORD_OLD(b))

/* identity of the value an operand holds: the numbers themselves on the word path, GMP's (opaque or exact) tags otherwise */
#define VIDN(x) (FR_WORD(x) ? (t_long)(x)->num : (x)->mpq->_mp_num.g_val)
#define VIDD(x) (FR_WORD(x) ? (t_long)(x)->den : (x)->mpq->_mp_den.g_val)
t_long vid_an, vid_ad, vid_bn, vid_bd;
/* the GMP path computes GMP's <op> of exactly the two operand values (so the result is exact by GMP's contract) */
#define PROV2(r, op) (!g_gmp_arith || ((r)->mpq->g_op == (op) && (r)->mpq->g_an == vid_an && (r)->mpq->g_ad == vid_ad && (r)->mpq->g_bn == vid_bn && (r)->mpq->g_bd == vid_bd))
#define PROV1(r, op) (!g_gmp_arith || ((r)->mpq->g_op == (op) && (r)->mpq->g_an == vid_an && (r)->mpq->g_ad == vid_ad))
/* ghost: inputs captured at entry (read back from the counterexample trace by the replayer) */
t_word rp_a_num, rp_b_num; t_uword rp_a_den, rp_b_den; t_uchar rp_a_state, rp_b_state; t_bool rp_done;   /* rp_done: only the function under contract captures, not its callees */
#define RP_GHOSTS rp_done, rp_a_num, rp_b_num, rp_a_den, rp_b_den, rp_a_state, rp_b_state, vid_an, vid_ad, vid_bn, vid_bd
#define RP_CAP2(a, b) if (!rp_done) { rp_done = 1; rp_a_num = (a)->num; rp_a_den = (a)->den; rp_a_state = (a)->state; rp_b_num = (b)->num; rp_b_den = (b)->den; rp_b_state = (b)->state; vid_an = VIDN(a); vid_ad = VIDD(a); vid_bn = VIDN(b); vid_bd = VIDD(b); }
#define RP_CAP1(a)    if (!rp_done) { rp_done = 1; rp_a_num = (a)->num; rp_a_den = (a)->den; rp_a_state = (a)->state; vid_an = VIDN(a); vid_ad = VIDD(a); }

/* ---- gcd<uword>, gcd<ulword>: ASSUMED at real width (proved by complete unwinding in the S tier) ----------------
 * plus the one arithmetic lemma the word path of addition/subtraction relies on for the narrowing
 *     uword common = gcd(absVal(n), d):
 * for canonical operands, n != 0 there and gcd(|n|, d) divides gcd(a.den, b.den)   (Knuth 4.5.1).
 * g_last_gcd32 carries the result of the preceding gcd<uword> call; it is 0 on entry to every function under contract. */
t_uword g_last_gcd32;
_Thread_local x___gmp_expr_mpz_t_mpz_t g_FastRational__temp;   /* tentative re-declaration: FastRational::temp (thread_local scratch integer) */
#define GCD_POST(T) \
  __CPROVER_ensures((a == 0 ==> __CPROVER_return_value == b) && (b == 0 ==> __CPROVER_return_value == a)) \
  __CPROVER_ensures((a != 0 && b != 0) ==> (__CPROVER_return_value >= 1 && __CPROVER_return_value <= a && __CPROVER_return_value <= b))
#define OSMT_CONTRACT_gcd__uint_uint \
  __CPROVER_assigns(g_last_gcd32) GCD_POST(t_uint) \
  __CPROVER_ensures(g_last_gcd32 == __CPROVER_return_value)
#define OSMT_CONTRACT_gcd__ulong_ulong \
  __CPROVER_assigns() GCD_POST(t_ulong) \
  __CPROVER_ensures((g_last_gcd32 >= 1) ==> (a != 0 && __CPROVER_return_value <= g_last_gcd32))
#define OSMT_CONTRACT_gcd__int_int \
  __CPROVER_assigns() \
  __CPROVER_ensures((a == 0 ==> __CPROVER_return_value == b) && (b == 0 ==> __CPROVER_return_value == a))

/* ---- frames ---------------------------------------------------------------------------------------------------- */
#define FR_CACHE(x) (x)->state, (x)->mpq
#define FR_GMPOBJ(x) FR_MPQMEM(x): *((x)->mpq)
#define GHOST_FRAME g_pool_touched, g_last_gcd32, g_gmp_arith, RP_GHOSTS, g_FastRational__temp

/* ---- dst = a (op) b ------------------------------------------------------------------------------------------ */
#define BINOP_COMMON(extra_req) \
  FR_OPERAND(dst) FR_OPERAND(a) FR_OPERAND(b) \
  __CPROVER_requires(g_last_gcd32 == 0 && !g_gmp_arith && !rp_done) extra_req \
  __CPROVER_assigns(*dst, FR_CACHE(a), FR_CACHE(b), GHOST_FRAME) \
  __CPROVER_assigns(FR_GMPOBJ(dst); FR_GMPOBJ(a); FR_GMPOBJ(b)) \
  FR_WF_ENS(dst) \
  __CPROVER_ensures(FR_UNCHANGED(a) && FR_UNCHANGED(b)) \
  /* the word path is complete: GMP arithmetic is only used when an operand is big or the word path overflowed */ \
  __CPROVER_ensures((WW(a, b) && !FR_WORD(dst)) ==> g_gmp_arith)

#define L(x) ((t_lword)(x))
#define FITS_WORD(v) ((v) >= -2147483647l - 1 && (v) <= 2147483647l)

#define OSMT_ENTRY_addition RP_CAP2(a, b)
#define OSMT_CONTRACT_addition __CPROVER_ensures(PROV2(dst, OSMT_OP_ADD)) BINOP_COMMON() \
  __CPROVER_ensures((WW(a, b) && __CPROVER_old(b->num) == 0) ==> (FR_WORD(dst) && dst->num == a->num && dst->den == a->den)) \
  __CPROVER_ensures((WW(a, b) && __CPROVER_old(a->num) == 0) ==> (FR_WORD(dst) && dst->num == b->num && dst->den == b->den)) \
  __CPROVER_ensures((WW(a, b) && a->den == 1 && b->den == 1 && FITS_WORD(L(a->num) + L(b->num))) ==> (FR_WORD(dst) && !g_gmp_arith && dst->den == 1 && L(dst->num) == L(a->num) + L(b->num)))

#define OSMT_ENTRY_subtraction RP_CAP2(a, b)
#define OSMT_CONTRACT_subtraction __CPROVER_ensures(PROV2(dst, OSMT_OP_SUB)) BINOP_COMMON() \
  __CPROVER_ensures((WW(a, b) && __CPROVER_old(b->num) == 0) ==> (FR_WORD(dst) && dst->num == a->num && dst->den == a->den)) \
  __CPROVER_ensures((WW(a, b) && __CPROVER_old(a->num) == 0 && b->num != 0 && b->num != (-2147483647 - 1)) ==> (FR_WORD(dst) && dst->num == -b->num && dst->den == b->den)) \
  __CPROVER_ensures((WW(a, b) && a->den == 1 && b->den == 1 && FITS_WORD(L(a->num) - L(b->num))) ==> (FR_WORD(dst) && !g_gmp_arith && dst->den == 1 && L(dst->num) == L(a->num) - L(b->num)))

#define OSMT_ENTRY_multiplication RP_CAP2(a, b)
#define OSMT_CONTRACT_multiplication __CPROVER_ensures(PROV2(dst, OSMT_OP_MUL)) BINOP_COMMON() \
  __CPROVER_ensures(((FR_WORD_OLD(a) && __CPROVER_old(a->num) == 0) || (FR_WORD_OLD(b) && __CPROVER_old(b->num) == 0)) ==> (FR_WORD(dst) && dst->num == 0 && dst->den == 1)) \
  __CPROVER_ensures((WW(a, b) && FR_WORD(dst) && !g_gmp_arith) ==> ((dst->num > 0) == ((a->num > 0) == (b->num > 0) && a->num != 0 && b->num != 0) && (dst->num == 0) == (a->num == 0 || b->num == 0)))

#define OSMT_ENTRY_division RP_CAP2(a, b)
#define OSMT_CONTRACT_division __CPROVER_ensures(PROV2(dst, OSMT_OP_DIV)) BINOP_COMMON(__CPROVER_requires(FR_NONZERO(b))) \
  __CPROVER_ensures((FR_WORD_OLD(a) && __CPROVER_old(a->num) == 0) ==> (FR_WORD(dst) && dst->num == 0 && dst->den == 1)) \
  __CPROVER_ensures((WW(a, b) && b->num == 1 && b->den == 1) ==> (FR_WORD(dst) && dst->num == a->num && dst->den == a->den)) \
  __CPROVER_ensures((WW(a, b) && FR_WORD(dst) && !g_gmp_arith && a->num != 0) ==> ((dst->num > 0) == ((a->num > 0) == (b->num > 0)) && dst->num != 0))

/* ---- a (op)= b ----------------------------------------------------------------------------------------------- */
#define ASSIGNOP_COMMON(extra_req) \
  FR_OPERAND(a) FR_OPERAND(b) \
  __CPROVER_requires(g_last_gcd32 == 0 && !g_gmp_arith && !rp_done) extra_req \
  __CPROVER_assigns(*a, FR_CACHE(b), GHOST_FRAME) \
  __CPROVER_assigns(FR_GMPOBJ(a); FR_GMPOBJ(b)) \
  FR_WF_ENS(a) \
  __CPROVER_ensures(FR_UNCHANGED(b)) \
  __CPROVER_ensures((WW(a, b) && !FR_WORD(a)) ==> g_gmp_arith)
#define OA(e) __CPROVER_old(e)

#define OSMT_ENTRY_additionAssign RP_CAP2(a, b)
#define OSMT_CONTRACT_additionAssign __CPROVER_ensures(PROV2(a, OSMT_OP_ADD)) ASSIGNOP_COMMON() \
  __CPROVER_ensures((FR_WORD_OLD(b) && OA(b->num) == 0) ==> (a->state == OA(a->state) && a->num == OA(a->num) && a->den == OA(a->den))) \
  __CPROVER_ensures((WW(a, b) && OA(a->num) == 0 && b->num != 0 && b->den != 1) ==> (FR_WORD(a) && a->num == b->num && a->den == b->den))

#define OSMT_ENTRY_subtractionAssign RP_CAP2(a, b)
#define OSMT_CONTRACT_subtractionAssign __CPROVER_ensures(PROV2(a, OSMT_OP_SUB)) ASSIGNOP_COMMON() \
  __CPROVER_ensures((WW(a, b) && OA(a->den) == 1 && b->den == 1 && FITS_WORD(L(OA(a->num)) - L(b->num))) ==> (FR_WORD(a) && !g_gmp_arith && a->den == 1 && L(a->num) == L(OA(a->num)) - L(b->num)))

#define OSMT_ENTRY_multiplicationAssign RP_CAP2(a, b)
#define OSMT_CONTRACT_multiplicationAssign __CPROVER_ensures(PROV2(a, OSMT_OP_MUL)) ASSIGNOP_COMMON() \
  __CPROVER_ensures((WW(a, b) && (OA(a->num) == 0 || b->num == 0)) ==> (FR_WORD(a) && a->num == 0 && a->den == 1)) \
  __CPROVER_ensures((WW(a, b) && FR_WORD(a) && !g_gmp_arith) ==> ((a->num > 0) == ((OA(a->num) > 0) == (b->num > 0) && OA(a->num) != 0 && b->num != 0)))

#define OSMT_ENTRY_divisionAssign RP_CAP2(a, b)
#define OSMT_CONTRACT_divisionAssign __CPROVER_ensures(PROV2(a, OSMT_OP_DIV)) ASSIGNOP_COMMON(__CPROVER_requires(FR_NONZERO(b))) \
  __CPROVER_ensures((WW(a, b) && OA(a->num) == 0) ==> (FR_WORD(a) && a->num == 0 && a->den == 1)) \
  __CPROVER_ensures((WW(a, b) && FR_WORD(a) && !g_gmp_arith && OA(a->num) != 0) ==> ((a->num > 0) == ((OA(a->num) > 0) == (b->num > 0)) && a->num != 0))

/* ---- unary, result by value ---------------------------------------------------------------------------------- */
#define RET __CPROVER_return_value
#define UNARY_VALUE_COMMON(extra_req) \
  FR_OPERAND(self) \
  __CPROVER_requires(g_last_gcd32 == 0 && !g_gmp_arith && !rp_done) extra_req \
  __CPROVER_assigns(FR_CACHE(self), GHOST_FRAME) \
  __CPROVER_assigns(FR_GMPOBJ(self)) \
  FRV_WF_ENS(RET) \
  __CPROVER_ensures(FR_UNCHANGED(self))

#define OSMT_ENTRY_FastRational__op_minus__void RP_CAP1(self)
#define OSMT_CONTRACT_FastRational__op_minus__void UNARY_VALUE_COMMON() \
  /* the (word,uword) constructor reduces by gcd(|num|,den), which is 1 for a canonical operand; coprimality cannot be stated at R */ \
  __CPROVER_ensures((FR_WORD_OLD(self) && self->num != (-2147483647 - 1) && g_last_gcd32 <= 1) ==> (FR_WORD(&RET) && RET.num == -self->num && RET.den == self->den)) \
  __CPROVER_ensures(FRV_SIGN(RET) == -FR_SIGN(self))

#define OSMT_ENTRY_FastRational__inverse RP_CAP1(self)
#define OSMT_CONTRACT_FastRational__inverse UNARY_VALUE_COMMON(__CPROVER_requires(FR_NONZERO(self))) \
  __CPROVER_ensures((FR_WORD_OLD(self) && self->num > 0 && self->den <= 2147483647u) ==> (FR_WORD(&RET) && L(RET.num) == L(self->den) && L(RET.den) == L(self->num))) \
  __CPROVER_ensures((FR_WORD_OLD(self) && self->num < 0 && self->num != (-2147483647 - 1) && self->den <= 2147483647u) ==> (FR_WORD(&RET) && L(RET.num) == -L(self->den) && L(RET.den) == -L(self->num))) \
  __CPROVER_ensures(FRV_SIGN(RET) == FR_SIGN(self))

#define OSMT_ENTRY_FastRational__ceil RP_CAP1(self)
/* R: integer result with the right sign and magnitude bound.  "ret-1 < num/den <= ret" relates a 32-bit division to 64-bit
   multiplications, which no installed back end decides at real width; it is an S-tier obligation (fr_S.h). */
#define OSMT_CONTRACT_FastRational__ceil UNARY_VALUE_COMMON() \
  __CPROVER_ensures(FR_WORD_OLD(self) ==> (FR_WORD(&RET) && RET.den == 1)) \
  __CPROVER_ensures((FR_WORD_OLD(self) && self->den == 1) ==> RET.num == self->num) \
  __CPROVER_ensures((FR_WORD_OLD(self) && self->num > 0) ==> (RET.num >= 1 && RET.num <= self->num)) \
  __CPROVER_ensures((FR_WORD_OLD(self) && self->num < 0) ==> (RET.num <= 0 && RET.num >= self->num))

#define OSMT_ENTRY_FastRational__floor RP_CAP1(self)
#define OSMT_CONTRACT_FastRational__floor UNARY_VALUE_COMMON() \
  __CPROVER_ensures((FR_WORD_OLD(self) && FR_WORD(&RET)) ==> RET.den == 1) \
  __CPROVER_ensures((FR_WORD_OLD(self) && self->den == 1) ==> (FR_WORD(&RET) && RET.num == self->num)) \
  __CPROVER_ensures((FR_WORD_OLD(self) && FR_WORD(&RET) && self->num > 0) ==> (RET.num >= 0 && RET.num <= self->num)) \
  __CPROVER_ensures((FR_WORD_OLD(self) && FR_WORD(&RET) && self->num < 0) ==> (RET.num <= -1))

#define OSMT_ENTRY_FastRational__get_num RP_CAP1(self)
#define OSMT_CONTRACT_FastRational__get_num UNARY_VALUE_COMMON() \
  __CPROVER_ensures(FR_WORD_OLD(self) ==> (FR_WORD(&RET) && RET.num == self->num && RET.den == 1))
#define OSMT_ENTRY_FastRational__get_den RP_CAP1(self)
#define OSMT_CONTRACT_FastRational__get_den UNARY_VALUE_COMMON() \
  __CPROVER_ensures((FR_WORD_OLD(self) && self->den <= 2147483647u) ==> (FR_WORD(&RET) && L(RET.num) == L(self->den) && RET.den == 1)) \
  __CPROVER_ensures(FRV_SIGN(RET) == 1)

/* ---- unary in place / queries -------------------------------------------------------------------------------- */
#define OSMT_ENTRY_FastRational__negate RP_CAP1(self)
#define OSMT_CONTRACT_FastRational__negate \
  FR_OPERAND(self) __CPROVER_requires(g_last_gcd32 == 0 && !g_gmp_arith && !rp_done) \
  __CPROVER_assigns(*self, GHOST_FRAME) __CPROVER_assigns(FR_GMPOBJ(self)) \
  FR_WF_ENS(self) \
  __CPROVER_ensures((FR_WORD_OLD(self) && OA(self->num) != (-2147483647 - 1)) ==> (FR_WORD(self) && self->num == -OA(self->num) && self->den == OA(self->den))) \
  __CPROVER_ensures(FR_SIGN(self) == -(FR_WORD_OLD(self) ? ((OA(self->num) > 0) - (OA(self->num) < 0)) : OA(self->mpq->_mp_num.g_sgn)))

#define QUERY_COMMON \
  FR_OPERAND(self) __CPROVER_requires(g_last_gcd32 == 0 && !g_gmp_arith && !rp_done) \
  __CPROVER_assigns(RP_GHOSTS) \
  __CPROVER_ensures(self->state == OA(self->state) && self->num == OA(self->num) && self->den == OA(self->den) && self->mpq == OA(self->mpq))
#define OSMT_ENTRY_FastRational__sign RP_CAP1(self)
#define OSMT_CONTRACT_FastRational__sign QUERY_COMMON \
  __CPROVER_ensures(RET == FR_SIGN(self))
#define OSMT_ENTRY_FastRational__isInteger RP_CAP1(self)
#define OSMT_CONTRACT_FastRational__isInteger QUERY_COMMON \
  __CPROVER_ensures(FR_WORD(self) ==> (RET == (self->den == 1))) \
  __CPROVER_ensures(!FR_WORD(self) ==> (RET ==> (self->mpq->_mp_den.g_fu)))
#define OSMT_ENTRY_FastRational__isZero RP_CAP1(self)
#define OSMT_CONTRACT_FastRational__isZero QUERY_COMMON \
  __CPROVER_ensures(RET == (FR_SIGN(self) == 0))
#define OSMT_ENTRY_FastRational__isOne RP_CAP1(self)
#define OSMT_CONTRACT_FastRational__isOne QUERY_COMMON \
  __CPROVER_ensures(RET == (FR_WORD(self) && self->num == 1 && self->den == 1))

/* comparison of two operands; the word path is exact (cross multiplication in 64 bit) */
#define CMP_COMMON \
  FR_OPERAND(self) FR_OPERAND(b) __CPROVER_requires(g_last_gcd32 == 0 && !g_gmp_arith && !rp_done) \
  __CPROVER_assigns(FR_CACHE(self), FR_CACHE(b), GHOST_FRAME) __CPROVER_assigns(FR_GMPOBJ(self); FR_GMPOBJ(b)) \
  __CPROVER_ensures(FR_UNCHANGED(self) && FR_UNCHANGED(b))
#define OSMT_ENTRY_FastRational__compare__FastRational_R RP_CAP2(self, b)
#define OSMT_CONTRACT_FastRational__compare__FastRational_R CMP_COMMON \
  /* full cross-multiplied exactness is an S-tier obligation (two 64-bit multipliers against two more do not finish in SAT) */ \
  __CPROVER_ensures((WW(self, b) && self->den == b->den) ==> (RET == ((self->num > b->num) - (self->num < b->num)))) \
  __CPROVER_ensures((WW(self, b) && self->num <= 0 && b->num > 0) ==> RET < 0) \
  __CPROVER_ensures((WW(self, b) && self->num < 0 && b->num >= 0) ==> RET < 0) \
  __CPROVER_ensures((WW(self, b) && self->num >= 0 && b->num < 0) ==> RET > 0) \
  __CPROVER_ensures((WW(self, b) && self->num > 0 && b->num <= 0) ==> RET > 0) \
  __CPROVER_ensures((WW(self, b) && self->num == b->num && self->den == b->den) ==> RET == 0)
#define OSMT_ENTRY_FastRational__op_eq RP_CAP2(self, b)
#define OSMT_CONTRACT_FastRational__op_eq CMP_COMMON \
  __CPROVER_ensures(WW(self, b) ==> (RET == (self->num == b->num && self->den == b->den)))

/* ---- constructors -------------------------------------------------------------------------------------------- */
#define OSMT_CONTRACT_FastRational__ctor__word_uword \
  __CPROVER_requires(__CPROVER_is_fresh(self, sizeof(*self))) __CPROVER_requires(d > 0 && g_last_gcd32 == 0) \
  __CPROVER_assigns(*self, g_last_gcd32) \
  __CPROVER_ensures(FR_WORD(self) && self->state == 1 && self->den >= 1 && self->mpq == (mpq_ptr)0) \
  __CPROVER_ensures((g_last_gcd32 <= 1) ==> (self->num == n && self->den == d)) \
  __CPROVER_ensures((self->num > 0) == (n > 0) && (self->num < 0) == (n < 0))
#define OSMT_CONTRACT_FastRational__ctor__uint32_t \
  __CPROVER_requires(__CPROVER_is_fresh(self, sizeof(*self))) __CPROVER_requires(!g_gmp_arith) \
  __CPROVER_assigns(*self, GHOST_FRAME) \
  FR_WF_ENS(self) \
  __CPROVER_ensures((x <= 2147483647u) ==> (FR_WORD(self) && L(self->num) == L(x) && self->den == 1)) \
  __CPROVER_ensures((x > 2147483647u) ==> (!FR_WORD(self) || 0))
#define OSMT_CONTRACT_FastRational__ctor__FastRational_R \
  __CPROVER_requires(__CPROVER_is_fresh(self, sizeof(*self))) FR_OPERAND(x) \
  __CPROVER_assigns(*self, GHOST_FRAME) \
  __CPROVER_ensures(FR_WF_R(self) && FR_UNCHANGED(x) && x->state == OA(x->state)) \
  __CPROVER_ensures(FR_WORD(x) ==> (self->state == 1 && self->num == x->num && self->den == x->den)) \
  __CPROVER_ensures(!FR_WORD(x) ==> (self->state == 6 && self->mpq != x->mpq && FR_SIGN(self) == FR_SIGN(x)))
#define OSMT_CONTRACT_FastRational__op_assign__FastRational_R \
  FR_OPERAND(self) FR_OPERAND(x) \
  __CPROVER_assigns(*self, GHOST_FRAME) __CPROVER_assigns(FR_GMPOBJ(self)) \
  __CPROVER_ensures(FR_WF_R(self) && FR_UNCHANGED(x) && x->state == OA(x->state)) \
  __CPROVER_ensures(FR_WORD(x) ==> (FR_WORD(self) && !FR_MPQVAL(self) && self->num == x->num && self->den == x->den)) \
  __CPROVER_ensures(!FR_WORD(x) ==> (self->state == 6 && self->mpq != x->mpq && FR_SIGN(self) == FR_SIGN(x)))

/* ---- low-level helpers --------------------------------------------------------------------------------------- */
#define OSMT_CONTRACT_absVal__word \
  __CPROVER_assigns() \
  __CPROVER_ensures((x >= 0) ==> (L(RET) == L(x))) __CPROVER_ensures((x < 0) ==> (L(RET) == -L(x)))
#define OSMT_CONTRACT_absVal__lword \
  __CPROVER_assigns() \
  __CPROVER_ensures((x >= 0) ==> (RET == (t_ulword)x)) \
  __CPROVER_ensures((x < 0 && x != (-9223372036854775807l - 1l)) ==> (RET == (t_ulword)(-x))) \
  __CPROVER_ensures((x == (-9223372036854775807l - 1l)) ==> (RET == 9223372036854775808ul))
#define OSMT_CONTRACT_FastRational__compare__lword_lword \
  __CPROVER_assigns() __CPROVER_ensures(RET == ((a > b) - (a < b)))


/* ---- binary, result by value: operator+ - * / %, gcd, lcm, fastrat_fdiv_q, divexact ------------------------------ */
#define BIN_VALUE_COMMON(x, y, extra_req) \
  FR_OPERAND(x) FR_OPERAND(y) \
  __CPROVER_requires(g_last_gcd32 == 0 && !g_gmp_arith && !rp_done) extra_req \
  __CPROVER_assigns(FR_CACHE(x), FR_CACHE(y), GHOST_FRAME) \
  __CPROVER_assigns(FR_GMPOBJ(x); FR_GMPOBJ(y)) \
  FRV_WF_ENS(RET) \
  __CPROVER_ensures(FR_UNCHANGED(x) && FR_UNCHANGED(y))
#define PROVV(op) (!g_gmp_arith || (RET.mpq->g_op == (op) && RET.mpq->g_an == vid_an && RET.mpq->g_ad == vid_ad && RET.mpq->g_bn == vid_bn && RET.mpq->g_bd == vid_bd))
#define OSMT_ENTRY_FastRational__op_plus RP_CAP2(self, b)
#define OSMT_CONTRACT_FastRational__op_plus BIN_VALUE_COMMON(self, b, ) __CPROVER_ensures(PROVV(OSMT_OP_ADD)) \
  __CPROVER_ensures((WW(self, b) && self->den == 1 && b->den == 1 && FITS_WORD(L(self->num) + L(b->num))) ==> (FR_WORD(&RET) && RET.den == 1 && L(RET.num) == L(self->num) + L(b->num)))
#define OSMT_ENTRY_FastRational__op_minus__FastRational_R RP_CAP2(self, b)
#define OSMT_CONTRACT_FastRational__op_minus__FastRational_R BIN_VALUE_COMMON(self, b, ) __CPROVER_ensures(PROVV(OSMT_OP_SUB)) \
  __CPROVER_ensures((WW(self, b) && self->den == 1 && b->den == 1 && FITS_WORD(L(self->num) - L(b->num))) ==> (FR_WORD(&RET) && RET.den == 1 && L(RET.num) == L(self->num) - L(b->num)))
#define OSMT_ENTRY_FastRational__op_mul RP_CAP2(self, b)
#define OSMT_CONTRACT_FastRational__op_mul BIN_VALUE_COMMON(self, b, ) __CPROVER_ensures(PROVV(OSMT_OP_MUL))
#define OSMT_ENTRY_FastRational__op_div RP_CAP2(self, b)
#define OSMT_CONTRACT_FastRational__op_div BIN_VALUE_COMMON(self, b, __CPROVER_requires(FR_NONZERO(b))) __CPROVER_ensures(PROVV(OSMT_OP_DIV))

/* integer-valued operands */
#define FR_INT(x) (FR_WORD(x) ? (x)->den == 1 : ((x)->mpq->_mp_den.g_fl && (x)->mpq->_mp_den.g_val == 1))
/* the GMP path is GMP's integer <op> of exactly the two numerators (result left in the thread-local scratch integer) */
#define PROVZ(op, ida, idb) (!g_gmp_arith || (g_FastRational__temp.z.g_zop == (op) && g_FastRational__temp.z.g_za == (ida) && g_FastRational__temp.z.g_zb == (idb)))
#define OSMT_ENTRY_FastRational__op_mod RP_CAP2(self, d)
#define OSMT_CONTRACT_FastRational__op_mod BIN_VALUE_COMMON(self, d, __CPROVER_requires(FR_INT(self) && FR_INT(d) && FR_NONZERO(d))) \
  /* word path: floor remainder, sign of the divisor */ \
  __CPROVER_ensures((WW(self, d) && d->num > 0) ==> (FR_WORD(&RET) && RET.den == 1 && RET.num >= 0 && RET.num < d->num)) \
  __CPROVER_ensures((WW(self, d) && d->num < 0) ==> (FR_WORD(&RET) && RET.den == 1 && RET.num <= 0 && RET.num > d->num)) \
  __CPROVER_ensures((WW(self, d) && self->num == 0) ==> RET.num == 0)
#define OSMT_ENTRY_fastrat_fdiv_q RP_CAP2(n, d)
#define OSMT_CONTRACT_fastrat_fdiv_q BIN_VALUE_COMMON(n, d, __CPROVER_requires(FR_INT(n) && FR_INT(d) && FR_NONZERO(d))) \
  __CPROVER_ensures(PROVZ(OSMT_OP_FDIV, vid_an, vid_bn)) \
  __CPROVER_ensures((WW(n, d) && !g_gmp_arith) ==> (FR_WORD(&RET) && RET.den == 1)) \
  __CPROVER_ensures((WW(n, d) && !g_gmp_arith && n->num >= 0 && d->num > 0) ==> (RET.num >= 0 && RET.num <= n->num)) \
  __CPROVER_ensures((WW(n, d) && !g_gmp_arith && n->num < 0 && d->num > 0) ==> (RET.num < 0)) \
  __CPROVER_ensures((WW(n, d) && !g_gmp_arith && n->num > 0 && d->num < 0) ==> (RET.num < 0)) \
  __CPROVER_ensures((WW(n, d) && d->num == 1 && !g_gmp_arith) ==> (FR_WORD(&RET) && RET.num == n->num))
#define OSMT_ENTRY_divexact RP_CAP2(n, d)
#define OSMT_CONTRACT_divexact BIN_VALUE_COMMON(n, d, __CPROVER_requires(FR_INT(n) && FR_INT(d) && FR_NONZERO(d))) \
  __CPROVER_ensures(PROVZ(OSMT_OP_DIVEXACT, vid_an, vid_bn)) \
  __CPROVER_ensures((WW(n, d) && d->num == 1) ==> (FR_WORD(&RET) && RET.num == n->num && RET.den == 1)) \
  __CPROVER_ensures((WW(n, d) && FR_WORD(&RET) && !g_gmp_arith && n->num != 0) ==> ((RET.num > 0) == ((n->num > 0) == (d->num > 0)) || RET.num == 0))
#define OSMT_ENTRY_gcd__FastRational_R_FastRational_R RP_CAP2(a, b)
#define OSMT_CONTRACT_gcd__FastRational_R_FastRational_R BIN_VALUE_COMMON(a, b, __CPROVER_requires(FR_INT(a) && FR_INT(b))) \
  __CPROVER_ensures(PROVZ(OSMT_OP_GCD, vid_an, vid_bn)) \
  __CPROVER_ensures(FRV_SIGN(RET) >= 0) \
  __CPROVER_ensures((WW(a, b) && a->num == 0 && b->num != (-2147483647 - 1)) ==> (FR_WORD(&RET) && L(RET.num) == (b->num < 0 ? -L(b->num) : L(b->num)) && RET.den == 1))
#define OSMT_ENTRY_lcm__FastRational_R_FastRational_R RP_CAP2(a, b)
#define OSMT_CONTRACT_lcm__FastRational_R_FastRational_R BIN_VALUE_COMMON(a, b, __CPROVER_requires(FR_INT(a) && FR_INT(b))) \
  __CPROVER_ensures((!WW(a, b)) ==> PROVZ(OSMT_OP_LCM, vid_an, vid_bn)) \
  __CPROVER_ensures(FRV_SIGN(RET) >= 0) \
  __CPROVER_ensures((WW(a, b) && (a->num == 0 || b->num == 0)) ==> (FR_WORD(&RET) && RET.num == 0 && RET.den == 1))
#define OSMT_ENTRY_abs RP_CAP1(x)
#define OSMT_CONTRACT_abs \
  FR_OPERAND(x) __CPROVER_requires(g_last_gcd32 == 0 && !g_gmp_arith && !rp_done) \
  __CPROVER_assigns(FR_CACHE(x), GHOST_FRAME) __CPROVER_assigns(FR_GMPOBJ(x)) \
  FRV_WF_ENS(RET) __CPROVER_ensures(FR_UNCHANGED(x)) \
  __CPROVER_ensures(FRV_SIGN(RET) == (FR_SIGN(x) < 0 ? -FR_SIGN(x) : FR_SIGN(x))) \
  __CPROVER_ensures((FR_WORD_OLD(x) && x->num >= 0) ==> (FR_WORD(&RET) && RET.num == x->num && RET.den == x->den))
#define OSMT_ENTRY_fastrat_round_to_int RP_CAP1(n)
#define OSMT_CONTRACT_fastrat_round_to_int \
  FR_OPERAND(n) __CPROVER_requires(g_last_gcd32 == 0 && !g_gmp_arith && !rp_done) \
  __CPROVER_assigns(FR_CACHE(n), GHOST_FRAME) __CPROVER_assigns(FR_GMPOBJ(n)) \
  FRV_WF_ENS(RET) __CPROVER_ensures(FR_UNCHANGED(n))
/* construction from a GMP integer */
#define OSMT_CONTRACT_FastRational__ctor____mpz_struct_P \
  __CPROVER_requires(__CPROVER_is_fresh(self, sizeof(*self)) && __CPROVER_is_fresh(z, sizeof(*z)) && MPZ_SET(z) && MPZ_CONS(z)) \
  __CPROVER_assigns(*self, GHOST_FRAME) \
  FR_WF_ENS(self) \
  __CPROVER_ensures(FR_WORD(self) == (z->g_fs != 0)) \
  __CPROVER_ensures(FR_WORD(self) ==> (L(self->num) == z->g_val && self->den == 1)) \
  __CPROVER_ensures(!FR_WORD(self) ==> (self->state == 6 && self->mpq->_mp_num.g_val == z->g_val && self->mpq->_mp_den.g_fl && self->mpq->_mp_den.g_val == 1))
/* move construction / move assignment: ownership of the GMP object changes hands, nothing is copied */
#define OSMT_CONTRACT_FastRational__ctor__FastRational_RR \
  __CPROVER_requires(__CPROVER_is_fresh(self, sizeof(*self))) FR_OPERAND(other) \
  __CPROVER_assigns(*self, *other) \
  FR_WF_ENS(self) \
  __CPROVER_ensures(self->state == OA(other->state) && self->num == OA(other->num) && self->den == OA(other->den)) \
  __CPROVER_ensures(FR_MPQMEM(self) ==> (self->mpq == OA(other->mpq) && other->state == 1)) \
  __CPROVER_ensures(FR_WORD(other) && !FR_MPQMEM(other))
#define OSMT_CONTRACT_FastRational__op_assign__FastRational_RR \
  FR_OPERAND(self) FR_OPERAND(other) \
  __CPROVER_assigns(*self, *other) \
  FR_WF_ENS(self) \
  __CPROVER_ensures(self->state == OA(other->state) && self->num == OA(other->num) && self->den == OA(other->den) && self->mpq == OA(other->mpq)) \
  __CPROVER_ensures(other->state == OA(self->state) && other->num == OA(self->num) && other->den == OA(self->den) && other->mpq == OA(self->mpq))
/* private helpers of the representation */
#define OSMT_CONTRACT_FastRational__try_fit_word \
  FR_OPERAND_RAW(self) __CPROVER_requires(self->state == 6 && MPQ_SET(self->mpq) && MPQ_CONS(self->mpq)) \
  __CPROVER_assigns(self->state, self->num, self->den, RP_GHOSTS) \
  FR_WF_ENS(self) \
  __CPROVER_ensures(FR_WORD(self) == (MPQ_FITS(self->mpq) != 0)) \
  __CPROVER_ensures(FR_WORD(self) ==> (self->state == 7 && L(self->num) == self->mpq->_mp_num.g_val && L(self->den) == self->mpq->_mp_den.g_val))
#define FR_OPERAND_RAW(x) __CPROVER_requires(__CPROVER_is_fresh(x, sizeof(*(x)))) __CPROVER_requires(__CPROVER_is_fresh((x)->mpq, sizeof(__mpq_struct)))
#define OSMT_CONTRACT_FastRational__ensure_mpq_valid \
  FR_OPERAND(self) \
  __CPROVER_assigns(FR_CACHE(self), g_pool_touched, RP_GHOSTS) __CPROVER_assigns(FR_GMPOBJ(self)) \
  FR_WF_ENS(self) \
  __CPROVER_ensures(FR_MPQVAL(self) && self->num == OA(self->num) && self->den == OA(self->den) && FR_WORD(self) == FR_WORD_OLD(self)) \
  __CPROVER_ensures(FR_WORD(self) ==> (self->mpq->_mp_num.g_val == L(self->num) && self->mpq->_mp_den.g_val == L(self->den)))
#define OSMT_CONTRACT_FastRational__kill_mpq \
  FR_OPERAND(self) \
  __CPROVER_assigns(self->state, g_pool_touched) __CPROVER_assigns(FR_GMPOBJ(self)) \
  __CPROVER_ensures(FR_MPQMEM_OLD(self) ==> (self->state == 1 && !MPQ_INIT(self->mpq))) \
  __CPROVER_ensures(!FR_MPQMEM_OLD(self) ==> self->state == OA(self->state))
#define FR_MPQMEM_OLD(x) ((__CPROVER_old((x)->state) & 2) != 0)

#endif
