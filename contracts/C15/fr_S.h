/* C15 / C27 -- VALUE contracts of opensmt::FastRational at SCALED width W (S tier: exhaustive at that width, bounded).
 * Operands range over every well-formed representation: canonical word pairs, big values (held by the exact GMP
 * model of stubs/gmp_S.h) that do not fit a word, with or without a valid mpq cache.  Postconditions, from the
 * property statement: the result is the exact rational (cross-multiplied in wide arithmetic), it is well-formed --
 * canonical, in the word representation whenever it fits -- and operands keep their value.
 */
#ifndef FR_S_H
#define FR_S_H
#include "fr_common.h"
#include "../../stubs/gmp_S.h"
_Thread_local x___gmp_expr_mpz_t_mpz_t g_FastRational__temp;
#ifndef OSMT_NO_FR
/* big operands are bounded by 2^(W+2): beyond the word range, small enough for exact wide arithmetic */
#define S_BIG ((wide)1 << (OSMT_W + 2))
#define VN(x) (FR_WORD(x) ? (wide)(x)->num : (x)->mpq->_mp_num.g_v)
#define VD(x) (FR_WORD(x) ? (wide)(uwide)(x)->den : (x)->mpq->_mp_den.g_v)
static void s_make(struct FastRational *x) {
  t_uchar st = nondet_uchar(); __CPROVER_assume(st == 1 || st == 3 || st == 6 || st == 7);
  x->state = st; x->num = nondet_word(); x->den = nondet_uword(); x->mpq = (mpq_ptr)0;
  if (st & 2) { x->mpq = malloc(sizeof(__mpq_struct)); x->mpq->_mp_num.g_init = 1; x->mpq->_mp_den.g_init = 1; x->mpq->_mp_num.g_set = 0; x->mpq->_mp_den.g_set = 0; }
  if (st & 1) {
    __CPROVER_assume(x->den >= 1 && sp_coprime((wide)x->num, (wide)(uwide)x->den, 1 << OSMT_W));
    if (st & 4) { osmt_setz(&x->mpq->_mp_num, (wide)x->num); osmt_setz(&x->mpq->_mp_den, (wide)(uwide)x->den); }
  } else {
    wide n = nondet_wide(), d = nondet_wide();
    __CPROVER_assume(d >= 1 && d <= S_BIG && n >= -S_BIG && n <= S_BIG && sp_coprime(n, d, 1 << (OSMT_W + 2)));
    osmt_setz(&x->mpq->_mp_num, n); osmt_setz(&x->mpq->_mp_den, d);
    __CPROVER_assume(!MPQ_FITS(x->mpq));
  }
}
/* full well-formedness (FR_wf of DESIGN.md), as named obligations */
static void s_check(struct FastRational *x, const char *who) {
  __CPROVER_assert(FR_STATE_OK(x), "wf: state is one of the four legal flag combinations");
  if (FR_WORD(x)) {
    __CPROVER_assert(x->den >= 1, "wf: word denominator positive");
    __CPROVER_assert(sp_coprime((wide)x->num, (wide)(uwide)x->den, 1 << OSMT_W), "wf: word representation canonical (coprime, zero is 0/1)");
  }
  if (FR_MPQMEM(x)) __CPROVER_assert(MPQ_INIT(x->mpq), "wf: allocated flag implies an initialised GMP object");
  if (FR_MPQVAL(x)) { __CPROVER_assert(MPQ_SET(x->mpq), "wf: mpq-valid flag implies a value"); }
  if (!FR_WORD(x)) __CPROVER_assert(!MPQ_FITS(x->mpq), "wf: a value that fits the machine word is held in the machine word (unique representation)");
  if (FR_WORD(x) && FR_MPQVAL(x)) __CPROVER_assert(x->mpq->_mp_num.g_v == (wide)x->num && x->mpq->_mp_den.g_v == (wide)(uwide)x->den, "wf: word and mpq parts agree");
}
#define S_SAME(x, n, d) __CPROVER_assert(VN(x) == (n) && VD(x) == (d), "operand keeps its value")
#define S_EXACT(r, n, d) __CPROVER_assert(VN(r) * (d) == (n) * VD(r), "value: result is the exact rational")
#define S_OPERAND(x) struct FastRational x; s_make(&x); wide x##n = VN(&x), x##d = VD(&x);
#endif
#endif
