#!/usr/bin/env python3
"""osmt2c -- mechanical lowering of selected C++ functions of /repo to C for CBMC.

Input : the clang JSON AST (``clang++ -Xclang -ast-dump=json -Xclang -ast-dump-filter=<ns>``) of the
        translation unit that defines the functions.
Output: one C file containing the requested functions and every in-TU callee that has a body and is not
        listed as a stub, with
          * every implicit conversion written as an explicit cast to a typedef name (t_word, t_int, ...),
            so the same text compiles against a real-width or a width-scaled type header;
          * hook macros at fixed places (function contract, loop contracts, ghost hooks), all of which
            default to nothing:  OSMT_CONTRACT_<fn>, OSMT_LOOP_<fn>_<k>, OSMT_ENTRY_<fn>,
            OSMT_LOOPHEAD_<fn>_<k>, OSMT_LOOPTAIL_<fn>_<k>;
          * the code's own assert() as OSMT_ASSERT(cond,"text") (an obligation, never an assumption);
          * #line directives back to the /repo source.
It never guesses: an AST node kind outside the supported set, an unresolved callee that is not a declared
stub, or a missing root function raises Unsupported, and the caller turns that into exit status 2.

What the lowering drops or changes (also written into the sidecar JSON):
  destructors of locals/temporaries (and so pool release at scope exit), const/mutable/access control,
  noexcept and attributes, C++ object lifetime, exception unwinding (throw = set flag + return),
  virtual dispatch (unsupported), evaluation-order freedom (clang's AST order is used).
"""
import json, re, sys, hashlib, os

class Unsupported(Exception):
    pass

BUILTIN = {
    'void': 'void', 'bool': 't_bool', 'char': 't_char', 'signed char': 't_schar', 'unsigned char': 't_uchar',
    'short': 't_short', 'unsigned short': 't_ushort', 'int': 't_int', 'unsigned int': 't_uint',
    'long': 't_long', 'unsigned long': 't_ulong', 'long long': 't_llong', 'unsigned long long': 't_ullong',
    'double': 't_double', 'float': 't_float', '__int128': 't_int128', 'unsigned __int128': 't_uint128',
    'char8_t': 't_uchar',
}
# sugar that is kept (so that a width header can treat it separately from the plain builtin)
SUGAR = {
    'opensmt::word': 't_word', 'opensmt::uword': 't_uword', 'opensmt::lword': 't_lword', 'opensmt::ulword': 't_ulword',
    'word': 't_word', 'uword': 't_uword', 'lword': 't_lword', 'ulword': 't_ulword',
    'uint32_t': 't_u32', 'int32_t': 't_i32', 'uint64_t': 't_u64', 'int64_t': 't_i64', 'uint8_t': 't_uchar',
    'std::uint32_t': 't_u32', 'std::int32_t': 't_i32', 'std::uint64_t': 't_u64', 'std::int64_t': 't_i64',
    'size_t': 't_size', 'std::size_t': 't_size', 'ptrdiff_t': 't_ptrdiff', 'std::ptrdiff_t': 't_ptrdiff',
    'ssize_t': 't_ptrdiff', 'std::size_t': 't_size', 'std::nullptr_t': 'void *', 'nullptr_t': 'void *',
}
OPNAMES = {'+': 'plus', '-': 'minus', '*': 'mul', '/': 'div', '%': 'mod', '==': 'eq', '!=': 'ne', '<': 'lt', '>': 'gt',
           '<=': 'le', '>=': 'ge', '=': 'assign', '+=': 'pluseq', '-=': 'minuseq', '*=': 'muleq', '/=': 'diveq',
           '|': 'or', '|=': 'oreq', '&': 'and', '&=': 'andeq', '<<': 'shl', '>>': 'shr', '[]': 'index', '()': 'call',
           '!': 'not', '~': 'compl', '++': 'inc', '--': 'dec', '->': 'arrow', '<=>': 'cmp3', '^': 'xor', '^=': 'xoreq',
           '&&': 'land', '||': 'lor', '%=': 'modeq'}

def load_objs(path):
    s = open(path).read()
    dec = json.JSONDecoder(); i = 0; objs = []
    n = len(s)
    while True:
        while i < n and s[i].isspace(): i += 1
        if i >= n: break
        o, i = dec.raw_decode(s, i)
        objs.append(o)
    return objs

def sanitize(s):
    s = re.sub(r'\bconst\b', '', s)
    s = s.replace('opensmt::', '').replace('std::', 'std_').replace('&&', 'RR').replace('&', 'R').replace('*', 'P')
    s = s.replace('unsigned ', 'u').replace('::', '__')
    lead = len(s) - len(s.lstrip('_'))
    s = re.sub(r'[^A-Za-z0-9_]+', '_', s).strip('_')
    return '_' * lead + s

def split_top(s, sep=','):
    out = []; depth = 0; cur = ''
    for ch in s:
        if ch in '(<[': depth += 1
        elif ch in ')>]': depth -= 1
        if ch == sep and depth == 0:
            out.append(cur.strip()); cur = ''
        else:
            cur += ch
    if cur.strip(): out.append(cur.strip())
    return out

def split_fn_type(s):
    """'R (P1, P2) const' -> (R, [P1,P2])"""
    depth = 0
    # find the first '(' at angle depth 0 that starts the parameter list
    adepth = 0
    for i, ch in enumerate(s):
        if ch == '<': adepth += 1
        elif ch == '>': adepth -= 1
        elif ch == '(' and adepth == 0:
            # pointer-to-function "R (*)(...)"
            if s[i:i+3] == '(*)':
                continue
            j = i; d = 0
            while j < len(s):
                if s[j] == '(': d += 1
                elif s[j] == ')':
                    d -= 1
                    if d == 0: break
                j += 1
            ret = s[:i].strip()
            params = s[i+1:j].strip()
            plist = [] if params in ('', 'void') else split_top(params)
            return ret, plist
    raise Unsupported('cannot parse function type: ' + s)

class TU:
    def __init__(self, paths):
        self.objs = []
        for p in ([paths] if isinstance(paths, str) else paths):
            self.objs += load_objs(p)
        self.byid = {}; self.ns_scopes = set()
        self.parent = {}
        self.qname = {}
        self.canon = {}        # any redeclaration id -> id of the definition (or itself)
        self.funcs = {}        # id -> decl with body
        self.ctors = {}        # (record qname, ctorType) -> decl
        self.ctor_decls = {}   # same key -> any declaration (possibly without body in this TU)
        self.records = {}      # qname -> decl (complete definition)
        self.enums = {}        # qname -> decl
        self.typedefs = {}     # qname -> type dict
        self.enumconst = {}    # id -> (cname, value)
        self.globals = {}      # id -> decl (VarDecl at namespace / static member)
        self._file = None; self._line = None
        for o in self.objs:
            self._annot(o)
        for o in self.objs:
            self._index(o, None, '')
        # redeclaration chains
        for i, n in list(self.byid.items()):
            if n.get('kind') in FUNKINDS:
                pass
        for i, n in self.byid.items():
            if n.get('kind') in FUNKINDS and self._body(n) is not None:
                j = i; seen = set()
                self.canon[i] = i
                while True:
                    p = self.byid.get(j, {}).get('previousDecl')
                    if not p or p in seen: break
                    seen.add(p); self.canon[p] = i; j = p
        # forward chains: a declaration that is followed by a definition elsewhere
        for i, n in self.byid.items():
            if n.get('kind') in FUNKINDS and i not in self.canon:
                self.canon[i] = i

    # ---- locations (clang's JSON is delta encoded) -------------------------------------------
    def _bare(self, d):
        if 'file' in d: self._file = d['file']
        if 'line' in d: self._line = d['line']
        d['_file'] = self._file; d['_line'] = self._line
    def _locdict(self, d):
        if 'spellingLoc' in d or 'expansionLoc' in d:
            for k in d:
                if k in ('spellingLoc', 'expansionLoc'): self._bare(d[k])
            e = d.get('expansionLoc', d.get('spellingLoc'))
            d['_file'] = e['_file']; d['_line'] = e['_line']
        else:
            self._bare(d)
    def _annot(self, n):
        for k, v in n.items():
            if k == 'loc' and isinstance(v, dict): self._locdict(v)
            elif k == 'range' and isinstance(v, dict):
                for kk in v:
                    if isinstance(v[kk], dict): self._locdict(v[kk])
            elif k == 'inner':
                for c in v:
                    if isinstance(c, dict): self._annot(c)

    @staticmethod
    def _body(n):
        for c in n.get('inner', []):
            if c.get('kind') == 'CompoundStmt': return c
        return None

    def _index(self, n, parent, scope, in_pattern=False):
        k = n.get('kind'); i = n.get('id')
        if i: self.byid[i] = n
        n['_parent'] = parent
        name = n.get('name')
        newscope = scope
        if k == 'NamespaceDecl':
            newscope = scope + (name or '(anon)') + '::'
            self.ns_scopes.add(newscope)
        elif k in ('CXXRecordDecl', 'ClassTemplateSpecializationDecl'):
            if n.get('parentDeclContextId') and n['parentDeclContextId'] in self.qname:
                scope = self.qname[n['parentDeclContextId']] + '::'
            q = scope + (name or '(anon)')
            if k == 'ClassTemplateSpecializationDecl':
                q += '<' + ', '.join(self._targs(n)) + '>'
            self.qname[i] = q
            if n.get('completeDefinition') and not in_pattern:
                self.records.setdefault(q, n)
            newscope = q + '::'
        elif k == 'EnumDecl':
            q = scope + (name or '(anon)')
            self.qname[i] = q; self.enums[q] = n
            val = -1
            for c in n.get('inner', []):
                if c.get('kind') == 'EnumConstantDecl':
                    v = None
                    for cc in c.get('inner', []):
                        v = self._constval(cc)
                    val = v if v is not None else val + 1
                    self.enumconst[c['id']] = ('E_' + sanitize(q) + '_' + c['name'], val, q)
        elif k in ('TypedefDecl', 'TypeAliasDecl'):
            self.typedefs[scope + name] = n.get('type')
        elif k in FUNKINDS:
            sc = scope
            if n.get('parentDeclContextId') and n['parentDeclContextId'] in self.qname:
                sc = self.qname[n['parentDeclContextId']] + '::'
            if k == 'FunctionDecl' and parent is not None and parent.get('kind') == 'FriendDecl':
                # a friend function declared inside a class is a member of the enclosing namespace (its definition in another TU is named there)
                while sc and sc not in self.ns_scopes:
                    sc = sc[:-2]; sc = sc[:sc.rfind('::') + 2] if '::' in sc else ''
            n['_scope'] = sc
            n['_record'] = sc[:-2] if (k != 'FunctionDecl') else None
            self.qname[i] = sc + (name or '')
            if k == 'CXXConstructorDecl' and not in_pattern and not n.get('isImplicit'):
                self.ctor_decls.setdefault((sc[:-2], n['type']['qualType']), n)
            if self._body(n) is not None and not in_pattern and (n.get('mangledName') or k != 'FunctionDecl'):
                self.funcs[i] = n
                if k == 'CXXConstructorDecl':
                    self.ctors[(sc[:-2], n['type']['qualType'])] = n
        elif k == 'VarDecl' and parent is not None and parent.get('kind') in ('NamespaceDecl', 'CXXRecordDecl', 'ClassTemplateSpecializationDecl', 'TranslationUnitDecl'):
            sc = scope
            if n.get('parentDeclContextId') and n['parentDeclContextId'] in self.qname:
                sc = self.qname[n['parentDeclContextId']] + '::'
            self.qname[i] = sc + name
            self.globals[i] = n
        pat = in_pattern
        for c in n.get('inner', []):
            if not isinstance(c, dict): continue
            cp = pat
            if k == 'ClassTemplateDecl' and c.get('kind') == 'CXXRecordDecl': cp = True
            if k == 'FunctionTemplateDecl' and c.get('kind') in FUNKINDS and not c.get('mangledName') and c.get('kind') == 'FunctionDecl': cp = True
            self._index(c, n, newscope, cp)

    def _targs(self, n):
        out = []
        for c in n.get('inner', []):
            if c.get('kind') == 'TemplateArgument':
                if 'type' in c: out.append(c['type']['qualType'])
                elif 'value' in c: out.append(str(c['value']))
        return out

    def _constval(self, n):
        if 'value' in n and n.get('kind') in ('ConstantExpr', 'IntegerLiteral'):
            try: return int(n['value'])
            except ValueError: return None
        for c in n.get('inner', []):
            v = self._constval(c)
            if v is not None: return v
        return None

FUNKINDS = ('FunctionDecl', 'CXXMethodDecl', 'CXXConstructorDecl', 'CXXDestructorDecl', 'CXXConversionDecl')

class Lowerer:
    def __init__(self, tu, stubs=(), limits=None, keep_records=(), opaque_records=(), ghost_buffers=None, srcroot='/repo'):
        self.ghost_buffers = ghost_buffers or {}   # variable name -> set of qualified function names in which it is abstracted to its size
        self.tu = tu
        self.stubs = set(stubs)            # qualified names (or C names) that must NOT be lowered even if a body exists
        self.limits = limits or {}
        self.opaque_records = set(opaque_records)
        self.fn_cname = {}                 # decl id -> C name
        self.emitted = {}                  # decl id -> text
        self.order = []
        self.protos = {}
        self.need_records = []             # qnames, in order of first use
        self.need_globals = []
        self.need_enums = set()
        self.extern_calls = {}             # C name -> signature string (stubs the harness must provide)
        self.extern_types = set()
        self.meta = {'functions': [], 'dropped': {'destructor_sites': 0}, 'asserts': [], 'loops': []}
        self.srcroot = srcroot
        self._names_taken = {}
        self._td_stack = []
        self.known_extern_types = set(['x___gmp_expr_mpq_t_mpq_t', 'x___gmp_expr_mpz_t_mpz_t', 'x_std_stack___gmp_expr_mpq_t_mpq_t', 'x_std_stack___mpq_struct_P_std_vector___mpq_struct_P', 'x_std_mutex', 'x_std_atomic_bool'])
        self._calls = {}; self.may_throw = set(); self._stmt_may_throw = False; self._opaque_fields = {}; self._fn_locals = {}; self._fn_temps = {}
        self._assign_names()

    # ---------------------------------------------------------------- names
    def _basename(self, n):
        k = n['kind']; name = n.get('name', '')
        sc = sanitize(n.get('_scope', ''))
        if k == 'CXXConstructorDecl': b = 'ctor'
        elif k == 'CXXDestructorDecl': b = 'dtor'
        elif k == 'CXXConversionDecl': b = 'conv_' + sanitize(name.replace('operator', ''))
        elif name.startswith('operator') and not (name[8:9].isalnum() or name[8:9] == '_'):
            op = name[8:].strip()
            b = 'op_' + OPNAMES.get(op, sanitize(op))
        else: b = sanitize(name)
        return (sc + '__' if sc else '') + b

    def _sig(self, n):
        _, ps = split_fn_type(n['type']['qualType'])
        return '_'.join(sanitize(p) or 'v' for p in ps) or 'void'

    def _assign_names(self):
        groups = {}
        for i, n in self.tu.byid.items():
            if n.get('kind') in FUNKINDS and self.tu.canon.get(i, i) == i:
                groups.setdefault(self._basename(n), []).append(n)
        for b, lst in groups.items():
            # unary vs binary operator- etc. and overloads get the parameter signature appended
            if len(lst) == 1:
                self.fn_cname[lst[0]['id']] = b
            else:
                seen = {}
                for n in lst:
                    c = b + '__' + self._sig(n)
                    if c in seen:
                        c += '_' + hashlib.sha1((n.get('mangledName') or n['id']).encode()).hexdigest()[:6]
                    seen[c] = 1
                    self.fn_cname[n['id']] = c

    def cname_of(self, declid):
        c = self.tu.canon.get(declid, declid)
        return self.fn_cname.get(c)

    def find(self, qualified, sig=None):
        """find function definitions by qualified name (and optional C-name suffix)"""
        out = []
        for i, n in self.tu.funcs.items():
            if self.tu.qname.get(i) == qualified or self.fn_cname.get(i) == qualified or n.get('mangledName') == qualified:
                out.append(n)
        return out

    # ---------------------------------------------------------------- types
    def ctype(self, t):
        if isinstance(t, dict):
            q = t.get('qualType', '')
            d = t.get('desugaredQualType')
        else:
            q, d = t, None
        return self._ctype_s(q, d)

    def _strip_cv(self, s):
        s = re.sub(r'\b(const|volatile|struct|class|enum|typename)\b', '', s)
        return re.sub(r'\s+', ' ', s).strip()

    def _ctype_s(self, q, d=None):
        q = self._strip_cv(q)
        dd = self._strip_cv(d) if d else None
        if q.endswith('&&'): return self._ctype_s(q[:-2], dd[:-2] if dd and dd.endswith('&&') else None) + ' *'
        if q.endswith('&'): return self._ctype_s(q[:-1], dd[:-1] if dd and dd.endswith('&') and not dd.endswith('&&') else None) + ' *'
        if q.endswith('*'): return self._ctype_s(q[:-1], dd[:-1] if dd and dd.endswith('*') else None) + ' *'
        m = re.match(r'^(.*)\[(\d*)\]$', q)
        if m:
            return self._ctype_s(m.group(1), None) + ' *'     # arrays only appear decayed (parameters) here
        if q in SUGAR: return SUGAR[q]
        if q in BUILTIN: return BUILTIN[q]
        m = re.match(r'^__gnu_cxx::__alloc_traits<std::allocator<(.*)>, (.*)>::value_type$', q)
        if m and m.group(1).strip() == m.group(2).strip(): return self._ctype_s(m.group(2), None)      # libstdc++'s spelling of vector<T>::value_type
        m = re.match(r'^(std::)?initializer_list<(.*)>::(const_)?iterator$', q)
        if m: return self._ctype_s(m.group(2), None) + ' *'
        if q.startswith('std::initializer_list<') or q.startswith('initializer_list<'): return 'struct osmt_ilist'
        if q in ('std::string', 'string', 'std::__cxx11::string') or re.match(r'^(std::)?(__cxx11::)?basic_string<char(, std::char_traits<char>, std::allocator<char>\s*)?>$', q): return 'struct osmt_string'
        for cand in (q, 'opensmt::' + q):
            if cand in self.tu.records:
                return self._record(cand)
            if cand in self.tu.enums:
                e = self.tu.enums[cand]
                self.need_enums.add(cand)
                u = e.get('fixedUnderlyingType', {}).get('qualType', 'int')
                return self._ctype_s(u)
            if cand in self.tu.typedefs and self.tu.typedefs[cand]:
                td = self.tu.typedefs[cand]
                tq = self._strip_cv(td.get('qualType', ''))
                if re.search(r'\benum\b', td.get('qualType', '')) and tq.split('::')[-1] == cand.split('::')[-1]:
                    return 't_uint'    # typedef enum { ... } Name;  -- an unnamed enum known by its typedef name
                if tq not in (q, cand) and cand not in self._td_stack:
                    self._td_stack.append(cand)
                    try:
                        return self.ctype(td)
                    finally:
                        self._td_stack.pop()
        if d and self._strip_cv(d) != q:
            return self._ctype_s(d, None)
        # nested-name in a record scope (e.g. FastRational::mpqPool spelled without namespace)
        for rq in self.tu.records:
            if rq.endswith('::' + q):
                return self._record(rq)
        if re.search(r'\((unnamed|anonymous) enum', q) or q.startswith('(unnamed enum') or re.search(r'\(unnamed at ', q):
            return 't_uint'        # an enum without a name and without a fixed underlying type
        for tq in self.tu.typedefs:
            if tq.endswith('::' + q) and self.tu.typedefs[tq] and re.search(r'\benum\b', self.tu.typedefs[tq].get('qualType', '')) and self._strip_cv(self.tu.typedefs[tq]['qualType']).split('::')[-1] == q.split('::')[-1]:
                return 't_uint'
            if tq.endswith('::' + q) and self.tu.typedefs[tq] and tq not in self._td_stack:
                self._td_stack.append(tq)
                try:
                    return self.ctype(self.tu.typedefs[tq])
                finally:
                    self._td_stack.pop()
        for eq in self.tu.enums:
            if eq.endswith('::' + q):
                self.need_enums.add(eq)
                return self._ctype_s(self.tu.enums[eq].get('fixedUnderlyingType', {}).get('qualType', 'int'))
        # external type (GMP, std::): the stub headers must define it
        ext = 'x_' + sanitize(q) if ('<' in q or '::' in q or ' ' in q) else q
        self.extern_types.add((ext, q))
        return ext

    def _record(self, q):
        if q not in self.need_records:
            self.need_records.append(q)
        return 'struct ' + sanitize(q)

    def is_record_type(self, t):
        c = self.ctype(t)
        return (c.startswith('struct ') or c.startswith('x_')) and not c.endswith('*')

    # ---------------------------------------------------------------- helpers
    def tmp(self, ctype):
        self._tmpn += 1
        name = '__t%d' % self._tmpn
        self._tmps.append((ctype, name))
        return name

    def addr(self, s):
        s = s.strip()
        m = re.match(r'^\(\*(.*)\)$', s)
        if m and self._balanced(m.group(1)):
            return m.group(1)
        return '(&' + s + ')'

    @staticmethod
    def _balanced(s):
        d = 0
        for ch in s:
            if ch == '(': d += 1
            elif ch == ')':
                d -= 1
                if d < 0: return False
        return d == 0

    def strip(self, n):
        """skip wrappers that have no meaning after lowering"""
        while n.get('kind') in ('ExprWithCleanups', 'CXXBindTemporaryExpr', 'ConstantExpr', 'SubstNonTypeTemplateParmExpr', 'FullExpr') \
                or (n.get('kind') in ('ImplicitCastExpr', 'CXXStaticCastExpr', 'CXXFunctionalCastExpr', 'CStyleCastExpr', 'CXXConstCastExpr')
                    and n.get('castKind') in ('NoOp', 'ConstructorConversion', 'UserDefinedConversion') and self._same_or_record(n)):
            n = n['inner'][0]
        return n

    def _same_or_record(self, n):
        # a NoOp cast between differently-sugared integer types must keep its target type name
        if n.get('castKind') != 'NoOp': return True
        try:
            return self.ctype(n['type']) == self.ctype(n['inner'][0]['type']) or self.is_record_type(n['type'])
        except Unsupported:
            return True

    def callee_decl(self, n):
        """resolve the function declaration a call node refers to -> (declid, refnode)"""
        c = n
        while c.get('kind') in ('ImplicitCastExpr', 'ParenExpr'):
            c = c['inner'][0]
        if c.get('kind') == 'DeclRefExpr':
            return c['referencedDecl']['id'], c['referencedDecl']
        if c.get('kind') == 'MemberExpr':
            i = c['referencedMemberDecl']
            return i, self.tu.byid.get(i, {'id': i, 'name': c.get('name'), 'type': None, 'kind': 'CXXMethodDecl'})
        raise Unsupported('indirect call: ' + str(c.get('kind')))

    def ext_name(self, ref, scopehint=''):
        """C name for a function that is not lowered (stub): deterministic from its name and signature"""
        i = ref['id']
        full = self.tu.byid.get(i)
        if full is not None and full.get('kind') in FUNKINDS:
            c = self.cname_of(i)
            if c: return c
        name = ref.get('name', 'fn')
        if name.startswith('operator') and not (name[8:9].isalnum() or name[8:9] == '_'):
            name = 'op_' + OPNAMES.get(name[8:].strip(), sanitize(name[8:]))
            # free operator of a library type: overloads differ only in their parameter types
            try:
                _, ps = split_fn_type((ref.get('type') or {}).get('qualType', ''))
                name += '__' + '_'.join(self._short(p) for p in ps)
            except Unsupported:
                pass
        return sanitize(scopehint + name)

    def _short(self, p):
        p = self._strip_cv(p)
        p = re.sub(r'(std::)?(__cxx11::)?basic_string<char(, std::char_traits<char>, std::allocator<char>\s*)?>', 'string', p)
        p = p.replace('std::string', 'string')
        return sanitize(p)

    # ---------------------------------------------------------------- expressions
    def expr(self, n):
        k = n.get('kind')
        f = getattr(self, 'e_' + k, None)
        if f is None:
            raise Unsupported('expression kind %s at %s' % (k, self.where(n)))
        return f(n)

    def where(self, n):
        r = n.get('range', {}).get('begin', {})
        return '%s:%s' % (r.get('_file'), r.get('_line'))

    def e_ParenExpr(self, n):
        inner = n['inner'][0]
        if inner.get('kind') == 'ConditionalOperator' and self._is_assert(inner):
            return self._assert(inner)
        return '(' + self.expr(inner) + ')'
    def e_ExprWithCleanups(self, n): return self.expr(n['inner'][0])
    def e_CXXBindTemporaryExpr(self, n): return self.expr(n['inner'][0])
    def e_ConstantExpr(self, n): return self.expr(n['inner'][0])
    def e_FullExpr(self, n): return self.expr(n['inner'][0])
    def e_SubstNonTypeTemplateParmExpr(self, n): return self.expr(n['inner'][0])
    def e_CXXRewrittenBinaryOperator(self, n): return self.expr(n['inner'][0])

    def e_IntegerLiteral(self, n):
        t = self.ctype(n['type'])
        v = n['value']
        canon = self._strip_cv(n['type'].get('desugaredQualType', n['type']['qualType']))
        suf = {'unsigned int': 'u', 'long': 'l', 'unsigned long': 'ul', 'long long': 'll', 'unsigned long long': 'ull'}.get(canon, '')
        return '((%s)%s%s)' % (t, v, suf)
    def e_CharacterLiteral(self, n):
        return '((%s)%s)' % (self.ctype(n['type']), n['value'])
    def e_FloatingLiteral(self, n):
        return '((%s)%s)' % (self.ctype(n['type']), n['value'])
    def e_CXXBoolLiteralExpr(self, n):
        return '((t_bool)%d)' % (1 if n['value'] else 0)
    def e_StringLiteral(self, n): return n['value']
    def e_PredefinedExpr(self, n): return self.expr(n['inner'][0])
    def e_CXXNullPtrLiteralExpr(self, n): return '((void *)0)'
    def e_GNUNullExpr(self, n): return '((void *)0)'
    def e_CXXThisExpr(self, n): return 'self'

    def e_DeclRefExpr(self, n):
        r = n['referencedDecl']; k = r['kind']; i = r['id']
        if k == 'EnumConstantDecl':
            c = self.tu.enumconst.get(i)
            if not c: raise Unsupported('enum constant not indexed: ' + r.get('name', ''))
            self.need_enums.add(c[2])
            return '((%s)%s)' % (self.ctype(n['type']), c[0])
        if k in ('ParmVarDecl', 'VarDecl'):
            if i in self.tu.globals:
                return self._global(i)
            name = r['name']
            if i in self._ghostbufs:
                return 'OSMT_GS_PTR(%s, 0)' % self._ghostbufs[i]   # the bare pointer: only legal as an argument of a stub or of free()
            if name in self.limits: return self.limits[name]
            rt = r.get('type', {}).get('qualType', '')
            if i not in self._locals:
                # a variable that is neither local nor an indexed global (e.g. verif_limits constants)
                if name.startswith('OSMT_LIM_'): return name
                if k == 'VarDecl':
                    # a variable of a class that was not dumped (std::string::npos, ...): an external symbol the stubs define
                    self.meta.setdefault('extern_vars', [])
                    if name not in self.meta['extern_vars']: self.meta['extern_vars'].append(name)
                    return 'OSMT_EXT_' + sanitize(name)
                raise Unsupported('reference to unknown variable %s at %s' % (name, self.where(n)))
            if self._strip_cv(rt).endswith('&'):
                return '(*%s)' % self._locals[i]
            return self._locals[i]
        if k in FUNKINDS:
            return self._fnref(r)
        if k in ('BindingDecl', 'DecompositionDecl'):
            if i in self._locals: return self._locals[i]
        raise Unsupported('DeclRefExpr to %s at %s' % (k, self.where(n)))

    def _global(self, i):
        g = self.tu.globals[i]
        if i not in self.need_globals: self.need_globals.append(i)
        return 'g_' + sanitize(self.tu.qname[i])

    def _fnref(self, r):
        i = r['id']
        ci = self.tu.canon.get(i, i)
        full = self.tu.funcs.get(ci)
        if full is not None and not self._is_stub(full):
            self._want(ci)
            return self.fn_cname[ci]
        name = self.ext_name(r)
        return name

    def _is_stub(self, full):
        q = self.tu.qname.get(full['id'], '')
        return q in self.stubs or self.fn_cname.get(full['id']) in self.stubs or full.get('mangledName') in self.stubs

    def e_MemberExpr(self, n):
        mid = n.get('referencedMemberDecl')
        md = self.tu.byid.get(mid)
        if mid in self.tu.globals:
            return self._global(mid)
        base = n['inner'][0]
        name = n['name']
        bq = self._rec_qname(base['type'])
        if bq in self.opaque_records:
            # field of a record that is kept opaque: one ghost object per field (contents unconstrained, only handed on to stubs)
            g = 'g_opaque_%s_%s' % (sanitize(bq), name)
            self._opaque_fields[g] = self.ctype(n['type'])
            self.meta.setdefault('opaque_fields', {})[g] = n['type']['qualType']
            return g
        b = self.expr(base)
        if n.get('isArrow'):
            return '(%s->%s)' % (b, name)
        return '(%s.%s)' % (b, name)

    def _ghost_buf(self, n):
        """name of the ghost-size buffer an expression denotes (a local pointer variable listed in ghost_buffers), else None"""
        c = n
        while c.get('kind') in ('ImplicitCastExpr', 'ParenExpr') : c = c['inner'][0]
        if c.get('kind') == 'DeclRefExpr' and c['referencedDecl'].get('id') in self._ghostbufs:
            return self._ghostbufs[c['referencedDecl']['id']]
        return None

    def e_ArraySubscriptExpr(self, n):
        g = self._ghost_buf(n['inner'][0])
        if g:
            # ghost-size mode: the buffer is represented by its size and liveness only; a read yields OSMT_GS_READ (nondeterministic)
            return 'OSMT_GS_RD(%s, %s)' % (g, self.expr(n['inner'][1]))
        return '(%s[%s])' % (self.expr(n['inner'][0]), self.expr(n['inner'][1]))

    def _ghost_alloc(self, g, init):
        c = init
        while c.get('kind') in ('ImplicitCastExpr', 'ParenExpr', 'CStyleCastExpr', 'CXXStaticCastExpr', 'CXXReinterpretCastExpr'): c = c['inner'][0]
        if c.get('kind') == 'CallExpr':
            _, ref = self.callee_decl(c['inner'][0]); args = c['inner'][1:]
            if ref.get('name') == 'malloc' and len(args) == 1:
                return 'OSMT_GS_MALLOC(%s, %s)' % (g, self.expr(args[0]))
            if ref.get('name') == 'realloc' and len(args) == 2 and self._ghost_buf(args[0]) == g:
                return 'OSMT_GS_REALLOC(%s, %s)' % (g, self.expr(args[1]))
        raise Unsupported('ghost-size buffer %s is assigned from something other than malloc/realloc of itself at %s' % (g, self.where(init)))

    def e_UnaryOperator(self, n):
        op = n['opcode']; a = n['inner'][0]
        if op == '&':
            aa = a
            while aa.get('kind') == 'ParenExpr': aa = aa['inner'][0]
            if aa.get('kind') == 'ArraySubscriptExpr' and self._ghost_buf(aa['inner'][0]):
                return 'OSMT_GS_PTR(%s, %s)' % (self._ghost_buf(aa['inner'][0]), self.expr(aa['inner'][1]))
        if op == '__extension__': return self.expr(a)
        if op == '*': return '(*%s)' % self.expr(a)
        if op == '&': return self.addr(self.expr(a))
        e = self.expr(a)
        if op in ('++', '--'):
            return '(%s%s)' % (e, op) if n.get('isPostfix') else '(%s%s)' % (op, e)
        if op == '!': return '((t_bool)(!%s))' % e
        t = self.ctype(n['type'])
        return '((%s)(%s%s))' % (t, op, e)

    def e_BinaryOperator(self, n):
        op = n['opcode']; a, b = n['inner']
        if op == ',': return '(%s, %s)' % (self.expr(a), self.expr(b))
        if op == '=':
            aa = a
            while aa.get('kind') == 'ParenExpr': aa = aa['inner'][0]
            if aa.get('kind') == 'ArraySubscriptExpr' and self._ghost_buf(aa['inner'][0]):
                return 'OSMT_GS_WR(%s, %s, %s)' % (self._ghost_buf(aa['inner'][0]), self.expr(aa['inner'][1]), self.expr(b))
            if self._ghost_buf(aa):
                return self._ghost_alloc(self._ghost_buf(aa), b)
            return '(%s = %s)' % (self.expr(a), self.expr(b))
        ea, eb = self.expr(a), self.expr(b)
        if op in ('<', '>', '<=', '>=', '==', '!=', '&&', '||'):
            return '((t_bool)(%s %s %s))' % (ea, op, eb)
        if op in ('.*', '->*', '<=>'): raise Unsupported('operator ' + op)
        t = self.ctype(n['type'])
        return '((%s)(%s %s %s))' % (t, ea, op, eb)

    def e_CompoundAssignOperator(self, n):
        op = n['opcode']; a, b = n['inner']
        lt = self.ctype(a['type'])
        ct = self.ctype(n.get('computeLHSType', a['type']))
        ea, eb = self.expr(a), self.expr(b)
        if ct == lt:
            return '(%s %s %s)' % (ea, op, eb)
        if not re.match(r'^[\w\.\->\(\)\*\[\] ]+$', ea) or '++' in ea or '--' in ea:
            raise Unsupported('compound assignment with converting, effectful lhs')
        return '(%s = (%s)((%s)%s %s %s))' % (ea, lt, ct, ea, op[:-1], eb)

    def _is_assert(self, n):
        c = n['inner'][2]
        while c.get('kind') in ('ParenExpr', 'ImplicitCastExpr', 'CXXFunctionalCastExpr', 'CStyleCastExpr'): c = c['inner'][0]
        if c.get('kind') != 'CallExpr': return False
        try:
            _, r = self.callee_decl(c['inner'][0])
        except Unsupported:
            return False
        return r.get('name') in ('__assert_fail', '__assert')
    def _assert(self, n):
        cond = n['inner'][0]
        call = n['inner'][2]
        while call.get('kind') != 'CallExpr': call = call['inner'][0]
        txt = call['inner'][1]
        while txt.get('kind') != 'StringLiteral': txt = txt['inner'][0]
        text = txt['value']
        line = n.get('range', {}).get('begin', {}).get('_line')
        macro = 'OSMT_ASSERT_WF' if 'isWellFormed' in text else 'OSMT_ASSERT'
        self.meta['asserts'].append({'fn': self._curname, 'line': line, 'text': json.loads(text), 'kind': macro})
        return '%s(%s, %s)' % (macro, self.expr(cond), text)

    def e_ConditionalOperator(self, n):
        if self._is_assert(n): return self._assert(n)
        c, a, b = n['inner']
        if n.get('valueCategory') == 'lvalue' and self.is_record_type(n['type']):
            # an lvalue conditional: its address is taken below (reference binding); `&(c ? a : b)` is not C
            return '(*(%s ? %s : %s))' % (self.expr(c), self.addr(self.expr(a)), self.addr(self.expr(b)))
        return '(%s ? %s : %s)' % (self.expr(c), self.expr(a), self.expr(b))

    # casts
    def _cast(self, n):
        ck = n.get('castKind'); inner = n['inner'][0]
        if ck in ('LValueToRValue', 'FunctionToPointerDecay', 'ArrayToPointerDecay', 'ConstructorConversion', 'UserDefinedConversion', 'BuiltinFnToFnPtr'):
            return self.expr(inner)
        if ck == 'NoOp':
            e = self.expr(inner)
            if self._same_or_record(n) or n.get('valueCategory') != 'prvalue': return e
            return '((%s)%s)' % (self.ctype(n['type']), e)
        if ck in ('IntegralCast', 'IntegralToFloating', 'FloatingToIntegral', 'FloatingCast', 'BitCast', 'IntegralToPointer', 'PointerToIntegral', 'BooleanToSignedIntegral'):
            return '((%s)%s)' % (self.ctype(n['type']), self.expr(inner))
        if ck in ('IntegralToBoolean', 'PointerToBoolean', 'FloatingToBoolean'):
            return '((t_bool)(%s != 0))' % self.expr(inner)
        if ck == 'NullToPointer':
            return '((%s)0)' % self.ctype(n['type'])
        if ck == 'ToVoid':
            return '((void)%s)' % self.expr(inner)
        if ck in ('DerivedToBase', 'UncheckedDerivedToBase'):
            e = self.expr(inner)
            srcq = self._rec_qname(inner['type'])
            if srcq in self.opaque_records or srcq not in self.tu.records:
                # the derived class is kept opaque: the base subobject is only ever handed to stubs, as a pointer
                if self.ctype(n['type']).endswith('*'): return '((%s)%s)' % (self.ctype(n['type']), e)
                return '(*(%s *)%s)' % (self.ctype(n['type']), self.addr(e))
            if self.ctype(n['type']).endswith('*'):
                return '(&(%s)->__base)' % e
            return '(%s.__base)' % e
        raise Unsupported('cast kind %s at %s' % (ck, self.where(n)))
    e_ImplicitCastExpr = _cast
    e_CStyleCastExpr = _cast
    e_CXXStaticCastExpr = _cast
    e_CXXFunctionalCastExpr = _cast
    e_CXXConstCastExpr = _cast
    e_CXXReinterpretCastExpr = _cast

    def e_UnaryExprOrTypeTraitExpr(self, n):
        if n.get('name') != 'sizeof': raise Unsupported('type trait ' + str(n.get('name')))
        if 'argType' in n: return '((t_ulong)sizeof(%s))' % self.ctype(n['argType'])
        return '((t_ulong)sizeof(%s))' % self.expr(n['inner'][0])

    # calls
    def _args(self, params, args, decl=None):
        out = []
        for idx, a in enumerate(args):
            if a.get('kind') == 'CXXDefaultArgExpr':
                # lowered callee: the default expression is taken from its parameter declaration; stub: the argument is
                # omitted (the stub's contract knows its own defaults)
                dflt = None
                if decl is not None:
                    pv = [c for c in decl.get('inner', []) if c.get('kind') == 'ParmVarDecl']
                    if idx < len(pv):
                        for c in pv[idx].get('inner', []):
                            if not c.get('kind', '').endswith('Attr'): dflt = c
                    if dflt is None: raise Unsupported('default argument without a visible default at ' + self.where(a))
                    a = dflt
                else:
                    continue
            p = params[idx] if idx < len(params) else None
            if p is not None and self._strip_cv(p).endswith('&'):
                out.append(self.addr(self.expr(a)))
            else:
                out.append(self.expr(a))
        return out

    def _call(self, ref, obj, args, n):
        """ref: referencedDecl-like dict, obj: C expr for the object pointer or None"""
        i = ref['id']; ci = self.tu.canon.get(i, i)
        full = self.tu.funcs.get(ci) or self.tu.byid.get(ci)
        ftype = (full or ref).get('type') or ref.get('type')
        if not ftype: raise Unsupported('call to function of unknown type %s' % ref.get('name'))
        ret, params = split_fn_type(ftype['qualType'])
        fdef = self.tu.funcs.get(ci)
        if fdef is not None and not self._is_stub(fdef):
            self._want(ci); name = self.fn_cname[ci]
        else:
            # implicit (body-less) copy/move assignment of a lowered record = plain struct assignment
            if (full or ref).get('name') == 'operator=' and fdef is None and obj is not None and full is not None and full.get('isImplicit'):
                return '(*%s = *%s)' % (obj, self._args(params, args)[0]) if self._strip_cv(params[0]).endswith('&') else None
            if ref.get('name') in ('move', 'forward') and len(args) == 1 and fdef is None and obj is None:
                # std::move / std::forward: a cast to an rvalue reference, i.e. the same object
                return self.expr(args[0])
            if ref.get('name') == 'swap' and len(params) == 2 and fdef is None and obj is None:
                # std::swap on scalars / pointers / plain structs: three assignments through a temporary
                pt = self._ctype_s(self._strip_cv(params[0]).rstrip('&').strip()) if not params[0].startswith('_') else None
                a0, a1 = self.expr(args[0]), self.expr(args[1])
                t = self.tmp(self.ctype(args[0]['type']))
                return '((void)(%s = %s, %s = %s, %s = %s))' % (t, a0, a0, a1, a1, t)
            scope = ''
            if full is not None and full.get('_scope'): scope = full['_scope']
            name = self.fn_cname.get(ci) or self.ext_name(ref, scope)
            sig = '%s %s(%s)' % (self._ctype_s(ret), name, ', '.join((['void *self'] if obj is not None else []) + [self._ctype_s(p) for p in params]))
            self.extern_calls[name] = sig
        a = self._args(params, args, fdef if (fdef is not None and not self._is_stub(fdef)) else None)
        if obj is not None: a = [obj] + a
        call = '%s(%s)' % (name, ', '.join(a))
        self._calls.setdefault(self._curname, set()).add(name)
        if name in self.may_throw: self._stmt_may_throw = True
        if self._strip_cv(ret).endswith('&'):
            return '(*%s)' % call
        return call

    def e_CallExpr(self, n):
        callee = n['inner'][0]; args = n['inner'][1:]
        cc = callee
        while cc.get('kind') in ('ImplicitCastExpr', 'ParenExpr'): cc = cc['inner'][0]
        if cc.get('kind') == 'CXXPseudoDestructorExpr':
            return '((void)0)'        # x.~T() for a scalar T: no effect
        i, ref = self.callee_decl(callee)
        if ref.get('name') in ('abort',):
            return 'OSMT_ABORT()'
        if ref.get('name') == 'free' and len(args) == 1 and self._ghost_buf(args[0]):
            return 'OSMT_GS_FREE(%s)' % self._ghost_buf(args[0])
        if ref.get('name') in ('all_of', 'any_of', 'none_of') and len(args) == 3 and self._lambda_of(args[2]) is not None:
            return self._algo_with_lambda(ref['name'], args, n)
        if ref.get('kind') == 'CXXMethodDecl' or (self.tu.byid.get(i, {}).get('kind') == 'CXXMethodDecl'):
            # static member function called without object
            return self._call(self.tu.byid.get(i, ref), None, args, n)
        return self._call(ref, None, args, n)

    # ---- std::all_of / any_of / none_of (first, last, lambda) over pointer iterators: an explicit loop with the lambda body inlined.
    #      Restrictions (anything else is refused): the iterators are raw pointers, the lambda has one parameter and its body is a single
    #      `return <expr>;`.  Inlining is exact for `this` / by-reference captures and for by-value captures (nothing runs in between).
    def _lambda_of(self, a):
        x = a
        while isinstance(x, dict) and x.get('kind') in ('MaterializeTemporaryExpr', 'CXXConstructExpr', 'ImplicitCastExpr', 'ExprWithCleanups', 'CXXBindTemporaryExpr', 'CXXFunctionalCastExpr') and len(x.get('inner', [])) == 1:
            x = x['inner'][0]
        return x if isinstance(x, dict) and x.get('kind') == 'LambdaExpr' else None

    def _algo_with_lambda(self, algo, args, n):
        lam = self._lambda_of(args[2])
        op = None
        for c in lam.get('inner', []):
            if c.get('kind') == 'CXXRecordDecl':
                for m in c.get('inner', []):
                    if m.get('kind') == 'CXXMethodDecl' and m.get('name') == 'operator()': op = m
        if op is None: raise Unsupported('lambda without a call operator at ' + self.where(lam))
        params = [c for c in op.get('inner', []) if c.get('kind') == 'ParmVarDecl']
        body = [c for c in op.get('inner', []) if c.get('kind') == 'CompoundStmt']
        if len(params) != 1 or len(body) != 1: raise Unsupported('lambda shape (parameters/body) at ' + self.where(lam))
        stmts = body[0].get('inner', [])
        if len(stmts) != 1 or stmts[0].get('kind') != 'ReturnStmt' or not stmts[0].get('inner'): raise Unsupported('lambda body is not a single return at ' + self.where(lam))
        it_t = self.ctype(args[0]['type'])
        if not it_t.endswith('*'): raise Unsupported('std::%s over non-pointer iterators (%s)' % (algo, it_t))
        pd = params[0]
        pname = self._local(pd)
        pt = pd['type']
        isref = self._strip_cv(pt['qualType']).endswith('&')
        self._tmpn += 1
        itn = '__it%d' % self._tmpn; rn = '__r%d' % self._tmpn; en = '__e%d' % self._tmpn
        first = self.expr(args[0]); last = self.expr(args[1])
        pdecl = '%s %s = %s;' % (self.ctype(pt), pname, itn if isref else '(*%s)' % itn)
        cond = self.expr(stmts[0]['inner'][0])
        init, test = {'all_of': ('1', '!(%s)' % cond), 'any_of': ('0', cond), 'none_of': ('1', cond)}[algo]
        flip = {'all_of': '0', 'any_of': '1', 'none_of': '0'}[algo]
        return '({ t_bool %s = %s; %s %s = %s; %s %s = %s; for (; %s != %s; ++%s) { %s if (%s) { %s = %s; break; } } %s; })' % (
            rn, init, it_t, itn, first, it_t, en, last, itn, en, itn, pdecl, test, rn, flip, rn)

    def e_CXXMemberCallExpr(self, n):
        callee = n['inner'][0]; args = n['inner'][1:]
        c = callee
        while c.get('kind') in ('ImplicitCastExpr', 'ParenExpr'): c = c['inner'][0]
        if c.get('kind') != 'MemberExpr': raise Unsupported('member call through ' + c.get('kind'))
        base = c['inner'][0]
        b = self.expr(base)
        obj = b if c.get('isArrow') else self.addr(b)
        i = c['referencedMemberDecl']
        ref = self.tu.byid.get(i)
        if ref is None:
            # method of a class that was not dumped (std::, GMP C++): stub named after class and method
            bt = base['type']
            cls = self._strip_cv((bt.get('desugaredQualType') or bt['qualType'])).rstrip('*& ').strip()
            name = sanitize(cls) + '__' + (sanitize(c['name']) if not c['name'].startswith('operator') else 'op_' + OPNAMES.get(c['name'][8:].strip(), sanitize(c['name'][8:])))
            a = [obj] + [self.expr(x) for x in args if x.get('kind') != 'CXXDefaultArgExpr']
            self._calls.setdefault(self._curname, set()).add(name)
            if name in self.may_throw: self._stmt_may_throw = True
            if n.get('valueCategory') == 'lvalue':
                # the method returns a reference: a pointer after lowering
                self.extern_calls[name] = '%s *%s(void *self, ...)' % (self.ctype(n['type']), name)
                return '(*%s(%s))' % (name, ', '.join(a))
            self.extern_calls[name] = '%s %s(void *self, ...)' % (self.ctype(n['type']), name)
            return '%s(%s)' % (name, ', '.join(a))
        if ref.get('virtual'):
            # dynamic dispatch is not modelled; a virtual callee is accepted only as a stub (its contract then stands for every override)
            cdef = self.tu.funcs.get(self.tu.canon.get(i, i))
            if not (cdef is not None and self._is_stub(cdef)) and not (self.tu.qname.get(i) in self.stubs or self.fn_cname.get(self.tu.canon.get(i, i)) in self.stubs):
                raise Unsupported('virtual call to ' + ref.get('name', ''))
        return self._call(ref, obj, args, n)

    def e_CXXOperatorCallExpr(self, n):
        callee = n['inner'][0]; args = n['inner'][1:]
        i, ref = self.callee_decl(callee)
        full = self.tu.byid.get(i)
        kind = (full or ref).get('kind')
        if kind == 'CXXMethodDecl':
            obj = self.addr(self.expr(args[0]))
            if full is None:
                # operator of a class that was not dumped (std::): stub named after the class of the object
                bt = args[0]['type']
                cls = self._strip_cv((bt.get('desugaredQualType') or bt['qualType'])).rstrip('*& ').strip()
                ref = dict(ref); ref['name'] = ref.get('name', 'operator')
                nm = sanitize(cls) + '__op_' + OPNAMES.get(ref['name'][8:].strip(), sanitize(ref['name'][8:]))
                a = [obj] + [self.expr(x) for x in args[1:]]
                self._calls.setdefault(self._curname, set()).add(nm)
                if n.get('valueCategory') == 'lvalue' and self.ctype(n['type']).startswith(('struct', 'x_')):
                    self.extern_calls[nm] = '%s *%s(void *self, ...)' % (self.ctype(n['type']), nm)
                    return '(*%s(%s))' % (nm, ', '.join(a))
                self.extern_calls[nm] = '%s %s(void *self, ...)' % (self.ctype(n['type']), nm)
                return '%s(%s)' % (nm, ', '.join(a))
            r = self._call(full or ref, obj, args[1:], n)
            if r is None: raise Unsupported('implicit operator= by value')
            return r
        return self._call(full or ref, None, args, n)

    # construction of class objects
    def construct_into(self, n, tgt):
        """C expression that initialises the (already declared) object `tgt` from the prvalue class expression n"""
        n = self.strip(n)
        k = n.get('kind')
        if k in ('CXXConstructExpr', 'CXXTemporaryObjectExpr'):
            if n.get('elidable') and n.get('inner'):
                return self.construct_into(n['inner'][0], tgt)
            rec = self._rec_qname(n['type'])
            args = n.get('inner', [])
            ctor = self.tu.ctors.get((rec, n['ctorType']['qualType']))
            _, params = split_fn_type(n['ctorType']['qualType'])
            if ctor is not None and not self._is_stub(ctor):
                self._want(ctor['id'])
                return '%s(%s)' % (self.fn_cname[ctor['id']], ', '.join([self.addr(tgt)] + self._args(params, args)))
            cdecl = self.tu.ctor_decls.get((rec, n['ctorType']['qualType']))
            if ctor is None and cdecl is not None:
                # user-declared constructor whose body lives in another translation unit: a call to be resolved by the auxiliary TU or a stub
                name = self.fn_cname.get(self.tu.canon.get(cdecl['id'], cdecl['id'])) or (sanitize(rec) + '__ctor__' + '_'.join(sanitize(p) for p in params))
                self.extern_calls[name] = 'void %s(%s)' % (name, ', '.join([self._ctype_s(rec) + ' *'] + [self._ctype_s(p) for p in params]))
                self._calls.setdefault(self._curname, set()).add(name)
                return '%s(%s)' % (name, ', '.join([self.addr(tgt)] + self._args(params, args)))
            if rec in self.tu.records and ctor is None:
                # implicit constructor of a lowered record
                if len(args) == 0:
                    return self._default_init(rec, tgt)
                if len(args) == 1 and self._rec_qname(args[0]['type']) == rec:
                    return '(%s = %s)' % (tgt, self.expr(args[0]))
                raise Unsupported('implicit constructor with arguments of ' + rec)
            name = sanitize(rec) + '__ctor' + ('__' + '_'.join(sanitize(p) for p in params) if params else '')
            self.extern_calls[name] = 'void %s(%s)' % (name, ', '.join([self._ctype_s(rec) + ' *'] + [self._ctype_s(p) for p in params]))
            return '%s(%s)' % (name, ', '.join([self.addr(tgt)] + self._args(params, args)))
        if k == 'InitListExpr':
            rec = self._rec_qname(n['type'])
            r = self.tu.records.get(rec)
            if r is None: raise Unsupported('init list of external type ' + rec)
            fields = [c for c in r.get('inner', []) if c.get('kind') == 'FieldDecl']
            parts = []
            for f, a in zip(fields, n.get('inner', [])):
                if self.is_record_type(f['type']):
                    parts.append(self.construct_into(a, '%s.%s' % (tgt, f['name'])))
                else:
                    parts.append('%s.%s = %s' % (tgt, f['name'], self.expr(a)))
            return '(' + ', '.join(parts or ['(void)0']) + ')'
        return '(%s = %s)' % (tgt, self.expr(n))

    def _default_init(self, rec, tgt):
        r = self.tu.records[rec]
        parts = []
        for f in r.get('inner', []):
            if f.get('kind') == 'FieldDecl' and f.get('hasInClassInitializer'):
                parts.append('%s.%s = %s' % (tgt, f['name'], self.expr(self.strip(f['inner'][-1]))))
        return '(' + ', '.join(parts or ['(void)0']) + ')'

    def _rec_qname(self, t):
        q = self._strip_cv(t.get('qualType', ''))
        q = q.rstrip('&* ').strip()
        for cand in (q, 'opensmt::' + q):
            if cand in self.tu.records: return cand
        for rq in self.tu.records:
            if rq.endswith('::' + q): return rq
        d = t.get('desugaredQualType')
        if d: return self._strip_cv(d).rstrip('&* ').strip()
        return q

    def e_CXXNewExpr(self, n):
        # only placement new into existing storage: `new (p) T(args)` constructs *p and yields p
        if not n.get('isPlacement'): raise Unsupported('non-placement new')
        inner = n.get('inner', [])
        if len(inner) < 1: raise Unsupported('placement new without a placement argument')
        ty = n['type']['qualType']
        # clang lists the initialiser before the placement argument; tell them apart by type (the placement argument is the void* one)
        ptrs = [c for c in inner if c.get('type', {}).get('qualType', '').replace('const ', '').strip() in ('void *',)]
        if len(ptrs) != 1 or len(inner) > 2: raise Unsupported('placement new with unexpected operands')
        place = ptrs[0]; rest = [c for c in inner if c is not place]; init = rest[0] if rest else None
        if not ty.rstrip().endswith('*'): raise Unsupported('placement new of ' + ty)
        elem = ty.rstrip()[:-1].strip()
        ct = self._ctype_s(elem)
        pe = '((%s *)%s)' % (ct, self.expr(place))
        if init is None:
            return pe
        if self.is_record_type({'qualType': elem}):
            return '(%s, %s)' % (self.construct_into(init, '(*%s)' % pe), pe)
        return '((*%s) = %s, %s)' % (pe, self.expr(init), pe)

    def e_CXXConstructExpr(self, n):
        if n.get('elidable') and n.get('inner'):
            return self.expr(n['inner'][0])
        t = self.tmp(self.ctype(n['type']))
        return '(%s, %s)' % (self.construct_into(n, t), t)
    e_CXXTemporaryObjectExpr = e_CXXConstructExpr

    def e_MaterializeTemporaryExpr(self, n):
        inner = n['inner'][0]
        t = self.tmp(self.ctype(n['type']))
        if self.is_record_type(n['type']):
            return '(*(%s, &%s))' % (self.construct_into(inner, t), t)
        return '(*(%s = %s, &%s))' % (t, self.expr(inner), t)

    def e_InitListExpr(self, n):
        if not self.is_record_type(n['type']):
            if len(n.get('inner', [])) == 1: return self.expr(n['inner'][0])
            if len(n.get('inner', [])) == 0: return '((%s)0)' % self.ctype(n['type'])
        t = self.tmp(self.ctype(n['type']))
        return '(%s, %s)' % (self.construct_into(n, t), t)

    def e_CXXStdInitializerListExpr(self, n):
        # {a, b, ...} handed to a std::initializer_list parameter: a local array plus (pointer, length)
        inner = self.strip(n['inner'][0])
        while inner.get('kind') in ('MaterializeTemporaryExpr', 'ImplicitCastExpr'): inner = self.strip(inner['inner'][0])
        if inner.get('kind') != 'InitListExpr': raise Unsupported('initializer_list not built from a braced list at ' + self.where(n))
        elems = inner.get('inner', [])
        m = re.match(r'^(.*)\[(\d+)\]$', self._strip_cv(inner['type']['qualType']))
        if not m: raise Unsupported('initializer_list backing array type ' + inner['type']['qualType'])
        et = self._ctype_s(m.group(1))
        self._tmpn += 1
        arr = '__t%d' % self._tmpn
        self._tmps.append((et, '%s[%d]' % (arr, max(1, len(elems)))))
        parts = []
        for k, e in enumerate(elems):
            if et.startswith('struct ') and not et.endswith('*'): parts.append(self.construct_into(e, '%s[%d]' % (arr, k)))
            else: parts.append('%s[%d] = %s' % (arr, k, self.expr(e)))
        parts.append('(struct osmt_ilist){ (void *)%s, %d }' % (arr, len(elems)))
        return '(' + ', '.join(parts) + ')'

    def e_CXXDefaultInitExpr(self, n):
        f = self._cur_field
        if f is None or not f.get('hasInClassInitializer'): raise Unsupported('default member initialiser without field')
        return self.expr(f['inner'][-1])

    def e_ImplicitValueInitExpr(self, n):
        if self.is_record_type(n['type']): raise Unsupported('value-initialised record member at ' + self.where(n))
        return '((%s)0)' % self.ctype(n['type'])

    def e_CXXScalarValueInitExpr(self, n):
        return '((%s)0)' % self.ctype(n['type'])

    def e_CXXThrowExpr(self, n):
        raise Unsupported('throw in expression context at ' + self.where(n))

    def e_StmtExpr(self, n):
        raise Unsupported('statement expression')

    # ---------------------------------------------------------------- statements
    def line(self, n):
        r = n.get('range', {}).get('begin', {})
        f, l = r.get('_file'), r.get('_line')
        if f and l:
            return '#line %d "%s"\n' % (l, f)
        return ''

    def stmt(self, n, ind):
        k = n.get('kind')
        f = getattr(self, 's_' + k, None)
        pre = self.line(n)
        if f is not None:
            if k in ('DeclStmt', 'ReturnStmt', 'ExprWithCleanups'):
                self._stmt_may_throw = False
                t = f(n, ind)
                if self._stmt_may_throw and k != 'ReturnStmt':
                    t += ind + 'if (__osmt_thrown) { %s }   /* exception propagates */\n' % self._zero_return()
                return pre + t
            return pre + f(n, ind)
        # expression statement
        self._stmt_may_throw = False
        t = ind + self.expr(n) + ';\n'
        if self._stmt_may_throw:
            t += ind + 'if (__osmt_thrown) { %s }   /* exception propagates */\n' % self._zero_return()
        return pre + t

    RAII = re.compile(r'^(std::)?(lock_guard|unique_lock|scoped_lock|shared_lock)<')

    def s_CompoundStmt(self, n, ind):
        out = ind + '{\n'
        self._depth += 1
        for c in n.get('inner', []):
            out += self.stmt(c, ind + '  ')
        # scope exit of RAII lock objects declared in this block (the only destructors the lowering keeps: a stub call)
        for dep, var, ty in reversed([r for r in self._raii if r[0] == self._depth]):
            out += ind + '  OSMT_SCOPE_EXIT_%s(&%s);\n' % (ty, var)
        self._raii = [r for r in self._raii if r[0] != self._depth]
        self._depth -= 1
        return out + ind + '}\n'

    def _raii_exits(self):
        return ''.join('OSMT_SCOPE_EXIT_%s(&%s); ' % (ty, var) for dep, var, ty in reversed(self._raii))

    def s_NullStmt(self, n, ind): return ind + ';\n'

    def s_DeclStmt(self, n, ind):
        out = ''
        for d in n.get('inner', []):
            k = d.get('kind')
            if k == 'VarDecl':
                out += self._vardecl(d, ind)
            elif k in ('StaticAssertDecl', 'TypedefDecl', 'TypeAliasDecl', 'UsingDecl', 'EmptyDecl', 'EnumDecl'):
                continue
            elif k == 'DecompositionDecl':
                out += self._decomp(d, ind)
            else:
                raise Unsupported('declaration kind %s at %s' % (k, self.where(d)))
        return out

    def _local(self, d, pointer=False):
        name = d.get('name') or '__anon'
        base = name; c = 1
        while name in self._localnames:
            c += 1; name = '%s_%d' % (base, c)
        self._localnames.add(name)
        self._locals[d['id']] = name
        return name

    def _vardecl(self, d, ind):
        if d.get('storageClass') == 'static' or d.get('tls'):
            # a function-local static (or thread_local) object of scalar type with a constant initialiser: kept as a C static, and reported
            # like a global (one object per process / per thread, shared by every call and every instance)
            t = d['type']
            if self.is_record_type(t) or self._strip_cv(t['qualType']).endswith(('&', ']')): raise Unsupported('static local variable %s of non-scalar type' % d.get('name'))
            init = None
            for c in d.get('inner', []):
                k = c.get('kind', '')
                if not (k.endswith('Attr') or k.endswith('Type') or k.endswith('Decl')): init = c
            dynamic = init is not None and self._constval(self.strip(init)) is None and self.strip(init).get('kind') not in ('IntegerLiteral', 'CXXBoolLiteralExpr')
            name = self._local(d)
            const = bool(re.search(r'\bconst\b', t['qualType'])) and not dynamic
            self.meta.setdefault('globals', []).append({'cname': '%s::%s' % (self._curname, name), 'qualified': '%s::%s (function-local static)' % (self._curq, d.get('name')), 'storage': 'static', 'tls': bool(d.get('tls')),
                                                        'dynamic_init': dynamic, 'type': t['qualType'], 'line': d.get('loc', {}).get('_line') or d.get('range', {}).get('begin', {}).get('_line'), 'file': d.get('loc', {}).get('_file')})
            tl = '_Thread_local ' if d.get('tls') else ''
            if dynamic:
                # initialised by the first call that reaches the declaration (once per process, or per thread for thread_local)
                return '%s%sstatic %s %s; %sstatic char %s__init; if (!%s__init) { %s = %s; %s__init = 1; }\n' % (ind, tl, self.ctype(t), name, tl, name, name, name, self.expr(init), name)
            return '%s%sstatic %s%s %s%s;\n' % (ind, tl, 'const ' if const else '', self.ctype(t), name, (' = ' + self.expr(init)) if init is not None else '')
        name = self._local(d)
        t = d['type']
        if d.get('name') in self.ghost_buffers and self._curq in self.ghost_buffers[d['name']]:
            if not self._strip_cv(t['qualType']).endswith('*'): raise Unsupported('ghost-size buffer %s is not a pointer' % name)
            self._ghostbufs[d['id']] = name
            self.meta.setdefault('ghost_buffers', []).append({'fn': self._curname, 'var': name, 'line': d.get('loc', {}).get('_line')})
            init = None
            for c in d.get('inner', []):
                k = c.get('kind', '')
                if not (k.endswith('Attr') or k.endswith('Type') or k.endswith('Decl')): init = c
            out = '%sOSMT_GS_DECL(%s);\n' % (ind, name)
            if init is not None: out += '%s%s;\n' % (ind, self._ghost_alloc(name, init))
            return out
        if self.RAII.match(self._strip_cv(t['qualType'])):
            self._raii.append((self._depth, name, sanitize(self._strip_cv(t['qualType']))))
            self.meta.setdefault('raii', []).append({'fn': self._curname, 'var': name, 'type': t['qualType']})
        am = re.match(r'^(.*)\[(\d+)\]$', self._strip_cv(t.get('desugaredQualType') or t['qualType']))
        if am:
            # local array: declared as such; an implicit (trivial) element constructor is dropped, anything else is unsupported
            for c in d.get('inner', []):
                if c.get('kind') in ('InitListExpr', 'StringLiteral'): raise Unsupported('initialised local array %s' % name)
            return '%s%s %s[%s];\n' % (ind, self._ctype_s(am.group(1)), name, am.group(2))
        ct = self.ctype(t)
        isref = self._strip_cv(t['qualType']).endswith('&')
        init = None
        if d.get('init'):
            for c in d.get('inner', []):
                k = c.get('kind', '')
                if k.endswith('Attr') or k.endswith('Type') or k.endswith('Decl'): continue
                init = c
            if init is None:
                raise Unsupported('variable %s has an initialiser that was not found in the AST' % name)
        if init is None:
            return '%s%s %s;\n' % (ind, ct, name)
        if isref:
            return '%s%s %s = %s;\n' % (ind, ct, name, self.addr(self.expr(init)))
        if self.is_record_type(t):
            return '%s%s %s; %s;\n' % (ind, ct, name, self.construct_into(init, name))
        return '%s%s %s = %s;\n' % (ind, ct, name, self.expr(init))

    def _decomp(self, d, ind):
        # auto [a, b] = e;  for a record with public fields: one hidden object, the bindings are its members
        t = d['type']
        if self._strip_cv(t['qualType']).endswith('&'): raise Unsupported('structured binding by reference at ' + self.where(d))
        if not self.is_record_type(t): raise Unsupported('structured binding of a non-record at ' + self.where(d))
        self._tmpn += 1
        name = '__d%d' % self._tmpn
        self._localnames.add(name); self._locals[d['id']] = name
        init = None; binds = []
        for c in d.get('inner', []):
            if c.get('kind') == 'BindingDecl': binds.append(c)
            elif not (c.get('kind', '').endswith('Attr')): init = c
        if init is None: raise Unsupported('structured binding without initialiser')
        out = '%s%s %s; %s;\n' % (ind, self.ctype(t), name, self.construct_into(init, name))
        for b in binds:
            e = b['inner'][0]
            if e.get('kind') != 'MemberExpr': raise Unsupported('structured binding through the tuple protocol at ' + self.where(d))
            self._locals[b['id']] = '(%s.%s)' % (name, e['name'])
        return out

    def s_IfStmt(self, n, ind):
        parts = n['inner']
        if n.get('hasInit') or n.get('hasVar'):
            raise Unsupported('if with init/condition variable at ' + self.where(n))
        out = ind + 'if (%s)\n' % self.expr(parts[0])
        out += self._block(parts[1], ind)
        if len(parts) > 2:
            out += ind + 'else\n' + self._block(parts[2], ind)
        return out

    def _block(self, n, ind):
        if n.get('kind') == 'CompoundStmt': return self.stmt(n, ind)
        return ind + '{\n' + self.stmt(n, ind + '  ') + ind + '}\n'

    def _loop_id(self, n):
        self._loopn += 1
        self.meta['loops'].append({'fn': self._curname, 'ordinal': self._loopn, 'kind': n['kind'], 'line': n.get('range', {}).get('begin', {}).get('_line')})
        return self._loopn

    def _loopbody(self, body, ind, k):
        fn = self._curname
        self._loopstack.append(k)
        out = ind + '{\n' + ind + '  OSMT_LOOPHEAD_%s_%d\n' % (fn, k)
        if body.get('kind') == 'CompoundStmt':
            for c in body.get('inner', []): out += self.stmt(c, ind + '  ')
        else:
            out += self.stmt(body, ind + '  ')
        if any(l['fn'] == fn and l['ordinal'] == k and l.get('has_continue') for l in self.meta['loops']):
            out += ind + '  __osmt_cont_%d: ;\n' % k
        out += ind + '  OSMT_LOOPTAIL_%s_%d\n' % (fn, k) + ind + '}\n'
        self._hooks.add('OSMT_LOOPHEAD_%s_%d' % (fn, k)); self._hooks.add('OSMT_LOOPTAIL_%s_%d' % (fn, k)); self._hooks.add('OSMT_LOOP_%s_%d' % (fn, k))
        self._loopstack.pop()
        return out

    def s_WhileStmt(self, n, ind):
        if n.get('hasVar'): raise Unsupported('while with condition variable')
        k = self._loop_id(n)
        c, body = n['inner'][0], n['inner'][1]
        self._check_continue(body, k)
        return ind + 'while (%s)\n%s  OSMT_LOOP_%s_%d\n' % (self.expr(c), ind, self._curname, k) + self._loopbody(body, ind, k)

    def s_DoStmt(self, n, ind):
        body, c = n['inner'][0], n['inner'][1]
        # do { ... } while(0) from macros is not a loop
        if self._constval(c) == 0:
            return ind + 'do\n' + self._block(body, ind) + ind + 'while (0);\n'
        k = self._loop_id(n)
        self._check_continue(body, k)
        return ind + 'do\n' + self._loopbody(body, ind, k) + ind + 'while (%s) OSMT_LOOP_%s_%d;\n' % (self.expr(c), self._curname, k)

    def _constval(self, c):
        c2 = c
        while c2.get('kind') in ('ImplicitCastExpr', 'ParenExpr', 'ConstantExpr'): c2 = c2['inner'][0]
        if c2.get('kind') == 'IntegerLiteral': return int(c2['value'])
        if c2.get('kind') == 'CXXBoolLiteralExpr': return 1 if c2['value'] else 0
        return None

    def s_ForStmt(self, n, ind):
        init, condvar, cond, inc, body = n['inner']
        if condvar and condvar.get('kind'): raise Unsupported('for with condition variable')
        k = self._loop_id(n)
        self._check_continue(body, k)
        out = ind + '{\n'
        if init and init.get('kind'):
            out += self.stmt(init, ind + '  ')
        c = self.expr(cond) if cond and cond.get('kind') else '1'
        i = self.expr(inc) if inc and inc.get('kind') else ''
        out += ind + '  for (; %s; %s)\n%s    OSMT_LOOP_%s_%d\n' % (c, i, ind, self._curname, k)
        out += self._loopbody(body, ind + '  ', k)
        return out + ind + '}\n'

    def _check_continue(self, body, k):
        # OSMT_LOOPTAIL hooks are skipped by `continue`; record it so that a contract relying on the tail hook can refuse
        def has(n):
            if n.get('kind') == 'ContinueStmt': return True
            if n.get('kind') in ('WhileStmt', 'DoStmt', 'ForStmt', 'CXXForRangeStmt'): return False
            return any(has(c) for c in n.get('inner', []) if isinstance(c, dict))
        if has(body): self.meta['loops'][-1]['has_continue'] = True

    def s_ReturnStmt(self, n, ind):
        if not n.get('inner'):
            return ind + '%sreturn;\n' % self._raii_exits()
        e = n['inner'][0]
        ex = self._raii_exits()   # locks held by RAII objects are released after the return value has been computed
        if self._ret_is_ref:
            if ex: return ind + '{ %s __rv = %s; %sreturn __rv; }\n' % (self._ret_c, self.addr(self.expr(e)), ex)
            return ind + 'return %s;\n' % self.addr(self.expr(e))
        if self._ret_is_rec:
            return ind + '{ %s; %sreturn __ret; }\n' % (self.construct_into(e, '__ret'), ex)
        if ex: return ind + '{ %s __rv = %s; %sreturn __rv; }\n' % (self._ret_c, self.expr(e), ex)
        return ind + 'return %s;\n' % self.expr(e)

    def s_GotoStmt(self, n, ind):
        if self._raii: raise Unsupported('goto while a lock object is in scope')
        return ind + 'goto %s;\n' % self._labels[n['targetLabelDeclId']]
    def s_LabelStmt(self, n, ind):
        return ind + '%s:\n' % self._labels[n['declId']] + self.stmt(n['inner'][0], ind)
    def s_BreakStmt(self, n, ind):
        if self._raii and self._loopstack: raise Unsupported('break while a lock object is in scope')
        return ind + 'break;\n'
    def s_ContinueStmt(self, n, ind):
        # `continue` == jump to the end of the loop body; written as a goto so that the loop-tail ghost hook is never skipped
        if not self._loopstack: raise Unsupported('continue outside a loop')
        return ind + 'goto __osmt_cont_%d;\n' % self._loopstack[-1]

    def s_SwitchStmt(self, n, ind):
        if n.get('hasInit') or n.get('hasVar'): raise Unsupported('switch with init')
        return ind + 'switch (%s)\n' % self.expr(n['inner'][0]) + self._block(n['inner'][1], ind)
    def s_CaseStmt(self, n, ind):
        return ind + 'case %s:\n' % self.expr(n['inner'][0]) + self.stmt(n['inner'][-1], ind)
    def s_DefaultStmt(self, n, ind):
        return ind + 'default:\n' + self.stmt(n['inner'][0], ind)

    def s_CXXThrowExpr(self, n, ind):
        # throw E(...)  ->  record the exception class, leave the function
        cls = 'rethrow'
        if n.get('inner'):
            e = self.strip(n['inner'][0])
            cls = sanitize(self._rec_qname(e['type']))
        self.meta.setdefault('throws', []).append({'fn': self._curname, 'class': cls, 'line': n.get('range', {}).get('begin', {}).get('_line')})
        self._throws = True
        return ind + '{ OSMT_THROW(%s); %s }\n' % ('OSMT_EXC_' + cls, self._zero_return())

    def s_ExprWithCleanups(self, n, ind):
        inner = n['inner'][0]
        if inner.get('kind') == 'CXXThrowExpr': return self.s_CXXThrowExpr(inner, ind)
        return ind + self.expr(inner) + ';\n'

    def _zero_return(self):
        if self._ret_c == 'void': return 'return;'
        if self._ret_is_rec: return 'return __ret;'
        if self._ret_is_ref: return 'return OSMT_DUMMY_PTR(%s);' % self._ret_c   # never looked at: the caller leaves at once
        return 'return (%s)0;' % self._ret_c

    def s_CXXTryStmt(self, n, ind): raise Unsupported('try/catch at ' + self.where(n))
    def s_CXXForRangeStmt(self, n, ind):
        # for (T x : range): clang's AST already spells out __range, __begin, __end, the condition, the increment and the
        # loop variable; they are emitted as an ordinary for loop (iterator operations of library containers become stub calls)
        parts = n['inner']
        if len(parts) != 8: raise Unsupported('unexpected shape of a range-for at ' + self.where(n))
        init, rng, beg, end, cond, inc, var, body = parts
        k = self._loop_id(n)
        self._check_continue(body, k)
        out = ind + '{\n'
        if init and init.get('kind'): out += self.stmt(init, ind + '  ')
        for d in (rng, beg, end):
            out += self.stmt(d, ind + '  ')
        out += ind + '  for (; %s; %s)\n%s    OSMT_LOOP_%s_%d\n' % (self.expr(cond), self.expr(inc), ind, self._curname, k)
        fn = self._curname
        self._loopstack.append(k)
        out += ind + '  {\n' + ind + '    OSMT_LOOPHEAD_%s_%d\n' % (fn, k)
        out += self.stmt(var, ind + '    ')
        if body.get('kind') == 'CompoundStmt':
            for c in body.get('inner', []): out += self.stmt(c, ind + '    ')
        else:
            out += self.stmt(body, ind + '    ')
        if any(l['fn'] == fn and l['ordinal'] == k and l.get('has_continue') for l in self.meta['loops']):
            out += ind + '    __osmt_cont_%d: ;\n' % k
        out += ind + '    OSMT_LOOPTAIL_%s_%d\n' % (fn, k) + ind + '  }\n'
        self._loopstack.pop()
        self._hooks.add('OSMT_LOOPHEAD_%s_%d' % (fn, k)); self._hooks.add('OSMT_LOOPTAIL_%s_%d' % (fn, k)); self._hooks.add('OSMT_LOOP_%s_%d' % (fn, k))
        return out + ind + '}\n'

    # ---------------------------------------------------------------- functions
    def _want(self, i):
        if i not in self.emitted and i not in self._pending:
            self._pending.append(i)

    def lower(self, roots, throwing_stubs=()):
        self._lower_once(roots)
        # exceptions: which lowered functions may throw (directly, through a callee, or through a stub declared as throwing)?
        direct = set(f['cname'] for f in self.meta['functions'] if f['throws']) | set(throwing_stubs)
        if direct:
            mt = set(direct); changed = True
            while changed:
                changed = False
                for caller, callees in self._calls.items():
                    if caller not in mt and callees & mt:
                        mt.add(caller); changed = True
            self.may_throw = mt
            # second pass with the knowledge of who throws: call statements get an `if (__osmt_thrown) return` after them
            self.emitted = {}; self.order = []; self.protos = {}; self._calls = {}
            self.meta['functions'] = []; self.meta['asserts'] = []; self.meta['loops'] = []; self.meta.pop('throws', None)
            self._lower_once(roots)
            self.meta['may_throw'] = sorted(mt)

    def _lower_once(self, roots):
        self._pending = []
        for r in roots:
            self._want(r['id'])
        while self._pending:
            i = self._pending.pop(0)
            if i in self.emitted: continue
            self.emitted[i] = None
            self.emitted[i] = self._function(self.tu.funcs[i])
            self.order.append(i)

    def _is_static(self, d):
        # `static` is written on the in-class declaration only: follow the redeclaration chain
        seen = set()
        while d is not None and d.get('id') not in seen:
            seen.add(d.get('id'))
            if d.get('storageClass') == 'static': return True
            d = self.tu.byid.get(d.get('previousDecl'))
        return False

    def _collect_labels(self, n):
        if n.get('kind') == 'LabelStmt':
            self._labels[n['declId']] = n['name']
        for c in n.get('inner', []):
            if isinstance(c, dict): self._collect_labels(c)

    def _function(self, d):
        name = self.fn_cname[d['id']]
        self._curname = name
        self._tmpn = 0; self._tmps = []; self._locals = {}; self._localnames = set(['self', '__ret']); self._ghostbufs = {}
        self._curq = self.tu.qname.get(d['id'])
        self._labels = {}; self._loopn = 0; self._hooks = set(); self._throws = False; self._loopstack = []; self._raii = []; self._depth = 0
        self._cur_field = None
        ret, ptypes = split_fn_type(d['type']['qualType'])
        kind = d['kind']
        params = []
        is_method = kind in ('CXXMethodDecl', 'CXXConstructorDecl', 'CXXDestructorDecl', 'CXXConversionDecl') and not self._is_static(d)
        if is_method:
            params.append('%s *self' % self._record(d['_record']))
        pn = 0
        for c in d.get('inner', []):
            if c.get('kind') == 'ParmVarDecl':
                pname = self._local(c) if c.get('name') else self._local({'id': c['id'], 'name': '__p%d' % pn})
                params.append('%s %s' % (self.ctype(c['type']), pname)); pn += 1
        if kind in ('CXXConstructorDecl', 'CXXDestructorDecl'): ret = 'void'
        self._ret_is_ref = self._strip_cv(ret).endswith('&')
        self._ret_c = self._ctype_s(ret)
        self._ret_is_rec = self._ret_c.startswith('struct ') and not self._ret_c.endswith('*')
        body = self.tu._body(d)
        self._collect_labels(body)
        text = ''
        # constructor initialisers
        if kind == 'CXXConstructorDecl':
            rec = self.tu.records.get(d['_record'])
            for c in d.get('inner', []):
                if c.get('kind') != 'CXXCtorInitializer': continue
                if 'anyInit' in c:
                    fid = c['anyInit']['id']; f = self.tu.byid.get(fid)
                    self._cur_field = f
                    tgt = '(self->%s)' % c['anyInit']['name']
                    init = c['inner'][0]
                    if self.is_record_type(c['anyInit']['type']):
                        text += '  %s;\n' % self.construct_into(init, tgt)
                    else:
                        text += '  %s = %s;\n' % (tgt, self.expr(init))
                    self._cur_field = None
                elif 'baseInit' in c:
                    text += '  %s;\n' % self.construct_into(c['inner'][0], '(self->__base)')
                else:
                    raise Unsupported('delegating constructor')
        toplevel = []
        for c in body.get('inner', []):
            if c.get('kind') == 'DeclStmt':
                toplevel += [x.get('name') for x in c.get('inner', []) if x.get('kind') == 'VarDecl' and x.get('name')]
            text += self.stmt(c, '  ')
        self._fn_locals[name] = toplevel
        self._fn_temps[name] = [tn for ct, tn in self._tmps if '[' not in tn]
        proto = '%s %s(%s)' % (self._ret_c, name, ', '.join(params) or 'void')
        self.protos[d['id']] = proto
        head = '%s%s\n  OSMT_CONTRACT_%s\n{\n' % (self.line(d), proto, name)
        if self._ret_is_rec:
            head += '  %s __ret;\n' % self._ret_c
        for ct, tn in self._tmps:
            head += '  %s %s;\n' % (ct, tn)
        head += '  OSMT_ENTRY_%s\n' % name
        self._hooks.add('OSMT_CONTRACT_' + name); self._hooks.add('OSMT_ENTRY_' + name)
        tail = ''
        if kind == 'CXXDestructorDecl': pass
        rng = d.get('range', {})
        b, e = rng.get('begin', {}), rng.get('end', {})
        src = self._source_text(b.get('_file'), b.get('_line'), e.get('_line'))
        self.meta['functions'].append({'cname': name, 'qualified': self.tu.qname.get(d['id']), 'mangled': d.get('mangledName'),
                                       'file': b.get('_file'), 'line_begin': b.get('_line'), 'line_end': e.get('_line'),
                                       'sha256': hashlib.sha256(src.encode()).hexdigest() if src else None,
                                       'hooks': sorted(self._hooks), 'throws': self._throws})
        return head + text + tail + '}\n'

    def _source_text(self, f, a, b):
        try:
            lines = open(f).read().split('\n')
            return '\n'.join(lines[a-1:b])
        except Exception:
            return ''

    # ---------------------------------------------------------------- output
    def _emit_records(self, skip=()):
        done = list(skip); out = ''
        self.records_emitted = done
        def emit(q):
            nonlocal out
            if q in done: return
            done.append(q)
            r = self.tu.records.get(q)
            sname = sanitize(q)
            if r is None or q in self.opaque_records:
                out += 'struct %s { char __opaque; };\n' % sname
                return
            fields = ''
            for c in r.get('inner', []):
                if c.get('kind') == 'CXXRecordDecl' and c.get('completeDefinition'):
                    pass
            bases = r.get('bases', [])
            for bs in bases:
                bq = self._rec_qname(bs['type'])
                if bq in self.tu.records:
                    emit(bq)
                fields += '  %s __base;\n' % self.ctype(bs['type'])
            for c in r.get('inner', []):
                if c.get('kind') == 'FieldDecl':
                    ct = self.ctype(c['type'])
                    if ct.startswith('struct ') and not ct.endswith('*'):
                        fq = self._rec_qname(c['type'])
                        emit(fq) if fq in self.tu.records else None
                    m = re.match(r'^(.*)\[(\d+)\]$', self._strip_cv(c['type']['qualType']))
                    fname = c.get('name') or ('__anon_%s' % c.get('id', 'x')[-4:])
                    if ct.startswith('x_') and ct not in self.known_extern_types:
                        # a member of a library type nobody described: kept as an opaque placeholder (its address may be handed to stubs)
                        fields += '  struct osmt_opaque_field %s;\n' % fname
                        continue
                    if m:
                        fields += '  %s %s[%s];\n' % (self._ctype_s(m.group(1)), fname, m.group(2))
                    else:
                        fields += '  %s %s;\n' % (ct, fname)
            out += 'struct %s {\n%s};\n' % (sname, fields or '  char __empty;\n')
        i = 0
        while i < len(self.need_records):
            emit(self.need_records[i]); i += 1
        return out

    def output(self, skip_funcs=(), skip_records=(), skip_globals=(), aux=False):
        body = ''
        for i in self.order:
            if self.fn_cname[i] in skip_funcs: continue
            body += self.emitted[i] + '\n'
        # globals may pull in more records
        gl = ''
        for i in self.need_globals:
            g = self.tu.globals[i]
            ct = self.ctype(g['type'])
            name = 'g_' + sanitize(self.tu.qname[i])
            if name in skip_globals: continue
            init = None
            if g.get('init'):
                for c in g.get('inner', []):
                    k = c.get('kind', '')
                    if k.endswith('Attr') or k.endswith('Type') or k.endswith('Decl'): continue
                    init = c
            tls = '_Thread_local ' if g.get('tls') else ''
            strs = []
            def _walk_str(x):
                if x.get('kind') == 'StringLiteral': strs.append(json.loads(x['value']))
                for c in x.get('inner', []):
                    if isinstance(c, dict): _walk_str(c)
            if init is not None and not ct.startswith('t_'): _walk_str(init)
            if strs: self.meta.setdefault('string_tables', {})[name] = strs
            self.meta.setdefault('globals', []).append({'cname': name, 'qualified': self.tu.qname[i], 'storage': g.get('storageClass'), 'tls': g.get('tls'), 'type': g['type']['qualType'],
                                                        'line': g.get('loc', {}).get('_line'), 'file': g.get('loc', {}).get('_file')})
            if init is not None and ct.startswith('struct ') and not ct.endswith('*'):
                il = self.strip(init)
                while il.get('kind') in ('CXXFunctionalCastExpr', 'CXXTemporaryObjectExpr', 'CXXConstructExpr', 'MaterializeTemporaryExpr', 'ImplicitCastExpr') and il.get('inner') and len(il['inner']) == 1:
                    il = self.strip(il['inner'][0])
                if il.get('kind') == 'InitListExpr' and all(not self.is_record_type(e['type']) for e in il.get('inner', [])):
                    self._tmps = []; self._tmpn = 0; self._locals = {}; self._curname = name
                    cq = 'const ' if re.search(r'\bconst\b', g['type']['qualType']) or g.get('constexpr') else ''
                    gl += '%sstatic %s%s %s = { %s };\n' % (tls, cq, ct, name, ', '.join(self.expr(e) for e in il.get('inner', [])))
                    continue
            if init is not None and ct.startswith('t_'):
                self._tmps = []; self._tmpn = 0; self._locals = {}; self._curname = name
                cq = 'const ' if re.search(r'\bconst\b', g['type']['qualType']) or g.get('constexpr') else ''
                gl += '%sstatic %s%s %s = %s;\n' % (tls, cq, ct, name, self.expr(init))
            else:
                gl += '%s%s %s;\n' % (tls, ct, name)
        for g, ct in sorted(self._opaque_fields.items()):
            if g not in skip_globals: gl += '%s %s;\n' % (ct, g)
        hdr = '/* generated by osmt2c from the clang AST of /repo -- do not edit */\n'
        hooks = set()
        for f in self.meta['functions']: hooks.update(f['hooks'])
        hk = ''
        for h in sorted(hooks):
            hk += '#ifndef %s\n#define %s\n#endif\n' % (h, h)
        en = ''
        for q in sorted(self.need_enums):
            for cid, (cn, val, eq) in self.tu.enumconst.items():
                if eq == q: en += '#ifndef %s\n#define %s %d\n#endif\n' % (cn, cn, val)
        exc = ''
        for k, c in enumerate(sorted(set(t['class'] for t in self.meta.get('throws', [])))):
            exc += '#ifndef OSMT_EXC_%s\n#define OSMT_EXC_%s %d\n#endif\n' % (c, c, k + 1)
        en += exc
        recs = self._emit_records(skip_records)
        protos = ''.join(self.protos[i] + ';\n' for i in self.order if self.fn_cname[i] not in skip_funcs)
        # which variables are declared at function level (a contract may ask, to stay meaningful when a variable's scope changes)
        for i in self.order:
            fn = self.fn_cname[i]
            if fn in skip_funcs: continue
            for v in self._fn_locals.get(fn, []):
                protos += '#define OSMT_FNLOCAL_%s_%s 1\n' % (fn, sanitize(v))
            # the function-level temporaries of the lowering, for frame clauses of loop contracts (their number changes with harmless edits of the source)
            if self._fn_temps.get(fn): protos += '#define OSMT_TEMPS_%s %s\n' % (fn, ', '.join(self._fn_temps[fn]))
        self.globals_emitted = ['g_' + sanitize(self.tu.qname[i]) for i in self.need_globals]
        ext = ''.join('/* stub: %s */\n' % s for s in sorted(self.extern_calls.values()))
        self.meta['stubs_called'] = sorted(self.extern_calls.values())
        self.meta['extern_types'] = sorted(q for _, q in self.extern_types)
        mid = '' if aux else '#ifdef OSMT_MID_INCLUDE\n#include OSMT_MID_INCLUDE\n#endif\n'
        self.pieces = {'enums': en, 'records': recs, 'externs': ext, 'globals': gl, 'protos': protos, 'hooks': hk, 'body': body}
        return assemble([self.pieces])

def assemble(pieces):
    """one C file from the pieces of one or more lowerings (primary TU first, auxiliary TUs after it)"""
    hdr = '/* generated by osmt2c from the clang AST of /repo -- do not edit */\n'
    cat = lambda k: ''.join(p[k] for p in pieces)
    mid = '#ifdef OSMT_MID_INCLUDE\n#include OSMT_MID_INCLUDE\n#endif\n'
    return hdr + cat('enums') + '\n#line 1 "osmt2c-types"\n' + cat('records') + '\n' + cat('externs') + cat('globals') + '\n' + cat('protos') + '\n' + mid + cat('hooks') + '\n' + cat('body')

def dump_ast(cc_file, out, filt='opensmt', extra=(), srcroot='/repo'):
    import subprocess
    inc = ['-I%s/src' % srcroot]
    for dp, dn, fn in os.walk(srcroot + '/src'):
        inc.append('-I' + dp)
    cmd = ['clang++', '-std=c++20', '-fsyntax-only', '-Wno-everything'] + inc + list(extra) + ['-Xclang', '-ast-dump=json', '-Xclang', '-ast-dump-filter=' + filt, cc_file]
    with open(out, 'w') as f:
        r = subprocess.run(cmd, stdout=f, stderr=subprocess.PIPE, text=True)
    if r.returncode != 0:
        raise Unsupported('clang failed on %s: %s' % (cc_file, r.stderr[-2000:]))
    return cmd

def main():
    import argparse
    ap = argparse.ArgumentParser()
    ap.add_argument('--ast', action='append', required=True)
    ap.add_argument('--root', action='append', required=True, help='qualified name, C name or mangled name of a function to lower')
    ap.add_argument('--stub', action='append', default=[])
    ap.add_argument('--opaque', action='append', default=[])
    ap.add_argument('-o', required=True)
    ap.add_argument('--meta')
    a = ap.parse_args()
    try:
        tu = TU(a.ast)
        lw = Lowerer(tu, stubs=a.stub, opaque_records=a.opaque)
        roots = []
        for r in a.root:
            f = lw.find(r)
            if len(f) != 1:
                raise Unsupported('root %s: %d candidates %s' % (r, len(f), [lw.fn_cname[x['id']] for x in f]))
            roots += f
        lw.lower(roots)
        text = lw.output()
    except Unsupported as e:
        print('UNDECIDED osmt2c: ' + str(e), file=sys.stderr)
        sys.exit(2)
    open(a.o, 'w').write(text)
    if a.meta:
        json.dump(lw.meta, open(a.meta, 'w'), indent=1)

if __name__ == '__main__':
    main()
