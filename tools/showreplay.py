#!/usr/bin/env python3
import json,sys
d=json.load(open(sys.argv[1]))
print(d['failed_obligation'])
for s in d['verifier_trace']:
    if any(x in s['lhs'] for x in ('rp_','state','num','den','g_','ret','zn','zd','common','tmp')) or len(sys.argv)>2:
        print(' ',s['at'].split('/')[-1],s['fn'],s['lhs'],'=',s['value'])
