#!/usr/bin/env python3
"""vrun -- job runner for contract checks of /repo functions with CBMC (goto-cc -> goto-instrument --dfcc -> cbmc).

A *job* is: one root function of /repo (lowered on this run by osmt2c from the clang AST of the current
working tree), a contract header (OSMT_CONTRACT_* / OSMT_LOOP_* macros + stub bodies), a harness, the list of
callees replaced by their contracts, and the instantiation (R = real width, S = scaled width W).
Each CBMC property becomes one obligation, classified as
   discharged | violated | excluded (intended wrap-around, listed) | reach (must FAIL: vacuity probe) | undecided.
"""
import json, os, re, subprocess, sys, time, hashlib, shutil, tempfile, threading
from concurrent.futures import ThreadPoolExecutor
sys.path.insert(0, os.path.dirname(os.path.abspath(__file__)))
import osmt2c

VERIF = os.path.dirname(os.path.dirname(os.path.abspath(__file__)))
REPO = os.environ.get('OSMT_REPO', '/repo')
CHECK_FLAGS = ['--pointer-check', '--bounds-check', '--div-by-zero-check', '--signed-overflow-check',
               '--unsigned-overflow-check', '--conversion-check', '--undefined-shift-check', '--float-overflow-check', '--nan-check']
MEM_KB = 12 * 1024 * 1024

class Undecided(Exception):
    pass

class Job:
    def __init__(self, name, tu, root, tier='R', header=None, harness=None, replace=(), stubs=(), width=None,
                 loop_contracts=False, unwindset=(), expected_wrap=(), timeout=1500, defines=(), backend='sat',
                 min_obligations=1, reach=('return',), enforce=True, pre_includes=('stubs/gmp_types.h',),
                 checks=None, proves='', entry_hook=None, replay=None, opaque=(), extra_roots=(), no_reach_return=False,
                 object_bits=None, bounded_note=None, nondet_static=False, aux_tu=None, throwing_stubs=(), ghost_buffers=None, weight=1, default_unwind=None, gen_header=None):
        self.__dict__.update(locals()); del self.__dict__['self']

class Obligation:
    __slots__ = ('job', 'pid', 'desc', 'status', 'file', 'line', 'function', 'cls', 'trace')
    def __init__(self, job, r):
        sl = r.get('sourceLocation', {})
        self.job = job; self.pid = r.get('property'); self.desc = r.get('description', ''); self.status = r.get('status')
        self.file = sl.get('file', ''); self.line = sl.get('line', ''); self.function = sl.get('function', '')
        self.cls = None; self.trace = r.get('trace')
    def key(self):
        # stable identification of an obligation across runs: function + class + text (not CBMC's running number)
        return '%s|%s|%s' % (self.function, re.sub(r'\.\d+$', '', self.pid or ''), self.desc)
    def short(self):
        return {'job': self.job, 'property': self.pid, 'where': '%s:%s' % (self.file, self.line), 'function': self.function, 'text': self.desc, 'status': self.status, 'class': self.cls}

_ast_lock = threading.Lock()
_ast_cache = {}

def sh(cmd, timeout=None, cwd=None, mem_kb=MEM_KB, stdout=None):
    pre = 'ulimit -v %d; ' % mem_kb if mem_kb else ''
    full = ['bash', '-c', pre + 'exec "$@"', 'sh'] + list(cmd)
    t0 = time.time()
    try:
        r = subprocess.run(full, stdout=stdout or subprocess.PIPE, stderr=subprocess.PIPE, timeout=timeout, cwd=cwd)
        return r.returncode, (r.stdout.decode(errors='replace') if r.stdout is not None else ''), r.stderr.decode(errors='replace'), time.time() - t0
    except subprocess.TimeoutExpired as e:
        return -9, '', 'TIMEOUT after %ss' % timeout, time.time() - t0

class Session:
    """one check run: owns the scratch directory, the AST dumps and the TU objects"""
    def __init__(self, scratch=None, repo=REPO, keep=False):
        self.repo = repo
        self.keep = keep or bool(os.environ.get('OSMT_KEEP'))
        self.scratch = scratch or tempfile.mkdtemp(prefix='osmt-verif.')
        self.tus = {}
        self.lock = threading.Lock()
        self.gen = None
    def close(self):
        if not self.keep:
            shutil.rmtree(self.scratch, ignore_errors=True)
    def _generated(self):
        """generated parser sources (bison/flex) go to scratch, never taken from /repo/_build"""
        with self.lock:
            if self.gen: return self.gen
            g = os.path.join(self.scratch, 'gen'); os.makedirs(g, exist_ok=True)
            pdir = os.path.join(self.repo, 'src/parsers/smt2new')
            yy = os.path.join(pdir, 'smt2newparser.yy'); ll = os.path.join(pdir, 'smt2newlexer.ll')
            if os.path.exists(yy):
                sh(['bison', '--defines=' + g + '/smt2newparser.hh', '-o', g + '/smt2newparser.cc', '--name-prefix=smt2new', yy], timeout=60)
                sh(['flex', '--prefix=smt2new', '-o', g + '/smt2newlexer.cc', ll], timeout=60)
            self.gen = g
            return g
    def tu(self, relpath, filt='opensmt'):
        key = (relpath, filt)
        with self.lock:
            ev = self.tus.get(key)
            if ev is None:
                ev = self.tus[key] = threading.Event(); ev.result = None; owner = True
            else:
                owner = False
        if not owner:
            ev.wait()
            if isinstance(ev.result, Exception): raise ev.result
            return ev.result
        try:
            out = os.path.join(self.scratch, 'ast_' + re.sub(r'\W', '_', relpath + '_' + filt) + '.json')
            gen = self._generated()
            t0 = time.time()
            cmd = osmt2c.dump_ast(relpath if os.path.isabs(relpath) else os.path.join(self.repo, relpath), out, filt=filt,
                                  extra=['-include', os.path.join(VERIF, 'include/verif_limits.h'), '-I' + gen], srcroot=self.repo)
            t = osmt2c.TU(out)
            t.dump_cmd = ' '.join(cmd); t.dump_s = time.time() - t0
            if not self.keep: os.unlink(out)
            ev.result = t
        except Exception as e:
            ev.result = osmt2c.Unsupported('AST dump of %s failed: %s' % (relpath, e)) if not isinstance(e, osmt2c.Unsupported) else e
        ev.set()
        if isinstance(ev.result, Exception): raise ev.result
        return ev.result

def auto_harness(proto, job):
    m = re.match(r'^(.*?)\b(\w+)\((.*)\)$', proto.strip())
    ret, name, params = m.group(1).strip(), m.group(2), m.group(3).strip()
    decls = ''; args = []
    if params and params != 'void':
        for i, prm in enumerate(osmt2c.split_top(params)):
            mm = re.match(r'^(.*?)(\w+)$', prm.strip())
            decls += '  %s h_%s;\n' % (mm.group(1).strip(), mm.group(2)); args.append('h_' + mm.group(2))
    call = '%s(%s);' % (name, ', '.join(args))
    if ret != 'void': call = '%s h_ret = %s' % (ret, call)
    probe = '' if job.no_reach_return else '  OSMT_REACH("return of %s");\n' % name
    return 'void harness(void) {\n%s  %s\n%s}\n' % (decls, call, probe)

TYPE_HDR = {'R': 'include/osmt_types_real.h', 'S': 'include/osmt_types_scaled.h'}

def run_job(sess, job):
    """returns dict(job=..., status, obligations=[Obligation], cmds=[...], seconds, meta, note)"""
    res = {'job': job.name, 'tier': job.tier, 'width': job.width, 'root': job.root, 'cmds': [], 'obligations': [], 'status': 'undecided',
           'note': '', 'seconds': 0.0, 'solver_s': 0.0, 'backend': job.backend, 'meta': None, 'proves': job.proves, 'bounded_note': job.bounded_note}
    t00 = time.time()
    d = os.path.join(sess.scratch, re.sub(r'[^A-Za-z0-9_.-]', '_', job.name) + '-' + hashlib.sha1(job.name.encode()).hexdigest()[:6]); os.makedirs(d, exist_ok=True)
    try:
        tu = sess.tu(job.tu)
        lw = osmt2c.Lowerer(tu, stubs=job.stubs, opaque_records=job.opaque, srcroot=sess.repo, ghost_buffers=getattr(job, 'ghost_buffers', None))
        roots = []
        for r in [job.root] + list(job.extra_roots):
            f = lw.find(r)
            if len(f) != 1:
                raise osmt2c.Unsupported('root %s: %d candidates %s' % (r, len(f), [lw.fn_cname[x['id']] for x in f]))
            roots += f
        lw.lower(roots, throwing_stubs=getattr(job, 'throwing_stubs', ()))
        text = lw.output()
        aux = getattr(job, 'aux_tu', None)
        if aux:
            # functions that have no body in the primary TU but are defined in the auxiliary one (same deterministic C names)
            tu2 = sess.tu(aux)
            lw2 = osmt2c.Lowerer(tu2, stubs=job.stubs, opaque_records=job.opaque, srcroot=sess.repo)
            have = set(lw.fn_cname[i] for i in lw.order)
            missing = []
            for nm in sorted(lw.extern_calls):
                f2 = [n for i, n in tu2.funcs.items() if lw2.fn_cname.get(i) == nm and not lw2._is_stub(n)]
                if len(f2) == 1: missing.append(f2[0])
            if missing:
                lw2.lower(missing, throwing_stubs=getattr(job, 'throwing_stubs', ()))
                lw2.output(skip_funcs=have, skip_records=list(lw.records_emitted), skip_globals=set(lw.globals_emitted), aux=True)
                text = osmt2c.assemble([lw.pieces, lw2.pieces])
                lw.meta['functions'] += [f for f in lw2.meta['functions'] if f['cname'] not in have]
                lw.meta['aux_tu'] = aux
        rootc = lw.fn_cname[roots[0]['id']]
        res['meta'] = lw.meta; res['root_cname'] = rootc
        open(os.path.join(d, 'lowered.c'), 'w').write(text)
        # harness
        jc = ''
        for dfn in job.defines: jc += '#define %s\n' % dfn
        if job.tier == 'S': jc += '#define OSMT_W %d\n' % job.width
        jc += '#include "%s"\n#include "%s"\n' % (os.path.join(VERIF, TYPE_HDR[job.tier]), os.path.join(VERIF, 'include/osmt_rt.h'))
        for inc in job.pre_includes: jc += '#include "%s"\n' % os.path.join(VERIF, inc)
        # string tables found in initialisers of global containers (e.g. tokens::tokenNames), and job-generated headers
        gen = ''
        for gname, strs in (lw.meta.get('string_tables') or {}).items():
            gen += 'static const char *TAB_%s[] = { %s };\nstatic const int TAB_%s_n = %d;\n' % (gname, ', '.join(json.dumps(x) for x in strs), gname, len(strs))
        if getattr(job, 'gen_header', None): gen += job.gen_header(sess)
        if gen:
            open(os.path.join(d, 'gen.h'), 'w').write(gen)
            jc += '#define OSMT_GEN_INCLUDE "%s"\n' % os.path.join(d, 'gen.h')
        jc += '#define OSMT_ROOT %s\n' % rootc
        if job.header: jc += '#define OSMT_MID_INCLUDE "%s"\n' % os.path.join(VERIF, job.header)
        jc += '#include "%s"\n' % os.path.join(d, 'lowered.c')
        jc += '#line 1 "harness:%s"\n' % job.name
        jc += job.harness if job.harness else auto_harness(lw.protos[roots[0]['id']], job)
        open(os.path.join(d, 'job.c'), 'w').write(jc)
        # 1 compile
        cmd = ['goto-cc', '--function', 'harness', os.path.join(d, 'job.c'), '-o', os.path.join(d, 'a.gb')]
        rc, so, se, t = sh(cmd, timeout=120); res['cmds'].append(' '.join(cmd))
        if rc != 0: raise Undecided('goto-cc failed (contract or lowering does not compile against the current source): ' + (se + so)[-1500:])
        cur = 'a.gb'
        # 2 optional unwinding of inner loops before loop contracts
        if job.unwindset and job.loop_contracts:
            cmd = ['goto-instrument', '--unwindset', ','.join(job.unwindset), '--unwinding-assertions', os.path.join(d, cur), os.path.join(d, 'u.gb')]
            rc, so, se, t = sh(cmd, timeout=300); res['cmds'].append(' '.join(cmd))
            if rc != 0: raise Undecided('goto-instrument --unwindset failed: ' + (se + so)[-800:])
            cur = 'u.gb'
        # 2b a function without a body (a stub nobody wrote) must never behave as "returns anything": its call is an obligation
        cmd = ['goto-instrument', '--generate-function-body', r'^(?!nondet_)(?!__CPROVER)(?!malloc$)(?!free$)(?!__builtin).*', '--generate-function-body-options', 'assert-false-assume-false',
               os.path.join(d, cur), os.path.join(d, 'g.gb')]
        rc, so, se, t = sh(cmd, timeout=300); res['cmds'].append(' '.join(cmd))
        if rc != 0: raise Undecided('goto-instrument --generate-function-body failed: ' + (se + so)[-800:])
        cur = 'g.gb'
        # 3 property instrumentation of the user code only (the dfcc library stays uninstrumented)
        flags = list(job.checks if job.checks is not None else CHECK_FLAGS)
        cmd = ['goto-instrument'] + flags + [os.path.join(d, cur), os.path.join(d, 'b.gb')]
        rc, so, se, t = sh(cmd, timeout=300); res['cmds'].append(' '.join(cmd))
        if rc != 0: raise Undecided('goto-instrument (checks) failed: ' + (se + so)[-800:])
        cur = 'b.gb'
        # 4 contracts
        if job.enforce or job.replace or job.loop_contracts:
            cmd = ['goto-instrument', '--dfcc', 'harness']
            if job.enforce: cmd += ['--enforce-contract', rootc if job.enforce is True else job.enforce]
            called = text
            for r in job.replace:
                if re.search(r'\b%s\(' % re.escape(r), called): cmd += ['--replace-call-with-contract', r]
            if job.loop_contracts: cmd += ['--apply-loop-contracts']
            if job.nondet_static: cmd += ['--nondet-static']
            cmd += ['--no-malloc-may-fail', os.path.join(d, cur), os.path.join(d, 'c.gb')]
            rc, so, se, t = sh(cmd, timeout=600); res['cmds'].append(' '.join(cmd))
            if rc != 0: raise Undecided('goto-instrument --dfcc failed: ' + (se + so)[-1500:])
            cur = 'c.gb'
        # 5 solve
        cmd = ['cbmc', os.path.join(d, cur), '--no-malloc-may-fail', '--no-standard-checks', '--json-ui', '--verbosity', '6']
        if not (job.enforce or job.replace or job.loop_contracts): cmd += ['--function', 'harness']
        if job.unwindset and not job.loop_contracts: cmd += ['--unwindset', ','.join(job.unwindset), '--unwinding-assertions']
        if getattr(job, 'default_unwind', None):
            cmd += ['--unwind', str(job.default_unwind)]
            if '--unwinding-assertions' not in cmd: cmd += ['--unwinding-assertions']   # loops not named in the unwindset (new loops in changed code): bounded too, assertion on
        if job.object_bits: cmd += ['--object-bits', str(job.object_bits)]
        if job.backend == 'z3': cmd += ['--z3']
        elif job.backend == 'cvc5': cmd += ['--cvc5']
        elif job.backend == 'kissat': cmd += ['--external-sat-solver', 'kissat']
        elif job.backend == 'cadical': cmd += ['--sat-solver', 'cadical']
        outp = os.path.join(d, 'cbmc.json')
        with open(outp, 'wb') as fo:
            rc, so, se, t = sh(cmd, timeout=job.timeout, stdout=fo)
        res['cmds'].append(' '.join(cmd)); res['solver_s'] = t
        if rc == -9: raise Undecided('cbmc timeout after %ds' % job.timeout)
        try:
            out = json.load(open(outp))
        except Exception as e:
            raise Undecided('cbmc produced no parsable result (rc=%s): %s' % (rc, (se or '')[-600:]))
        results = None; msgs = []
        for o in out:
            if isinstance(o, dict):
                if 'result' in o: results = o['result']
                if 'messageText' in o: msgs.append(o['messageText'])
        if results is None:
            raise Undecided('cbmc gave no result list (rc=%s): %s' % (rc, ' | '.join(msgs[-4:])[-800:]))
        if any('ignoring' in m and ('forall' in m or 'exists' in m) for m in msgs):
            raise Undecided('the SAT back end ignored a quantifier')
        if any(r.get('status') == 'ERROR' for r in results):
            raise Undecided('cbmc reported ERROR for its properties (solver back end failed, most likely the memory limit): ' + ' | '.join(msgs[-3:])[-400:])
        obs = [Obligation(job.name, r) for r in results]
        classify(job, obs, res)
        res['obligations'] = obs
    except osmt2c.Unsupported as e:
        res['status'] = 'undecided'; res['note'] = 'extraction: ' + str(e)
    except Undecided as e:
        res['status'] = 'undecided'; res['note'] = str(e)
    res['seconds'] = time.time() - t00
    res['dir'] = d
    return res

LIB_FILES = ('<builtin-library', '<built-in')

def classify(job, obs, res):
    nreach = 0; failed = []; unknown = []
    probes = {}
    for o in obs:
        if o.desc.startswith('reach:'):
            # loop-contract instrumentation duplicates loop bodies: a probe is fine if at least one of its copies is reachable
            o.cls = 'reach'
            probes.setdefault(o.desc, []).append(o.status)
    for desc, sts in probes.items():
        if 'FAILURE' not in sts:
            raise Undecided('vacuity: reachability probe "%s" is not reachable (statuses %s) -- the preconditions are contradictory or the path is dead' % (desc, sorted(set(sts))))
    nreach = len(probes)
    for o in obs:
        if o.cls == 'reach': continue
        if any(o.function == f and s in o.desc for f, s in job.expected_wrap):
            o.cls = 'excluded'; continue
        if 'undefined function should be unreachable' in o.desc:
            if o.status != 'SUCCESS':
                raise Undecided('the lowered code calls %s, for which no stub with a contract exists' % o.function)
            o.cls = 'excluded'; continue
        if 'unwinding assertion' in o.desc and o.status == 'FAILURE':
            raise Undecided('unwinding bound too small for %s (%s) -- a bounded job must unwind completely' % (o.function, o.pid))
        if o.status == 'SUCCESS': o.cls = 'discharged'
        elif o.status == 'FAILURE': o.cls = 'violated'; failed.append(o)
        else: o.cls = 'undecided'; unknown.append(o)
    want = [r for r in job.reach if not (r == 'return' and job.no_reach_return)]
    if nreach < len(want):
        raise Undecided('vacuity: expected %d reachability probes, found %d' % (len(want), nreach))
    real = [o for o in obs if o.cls in ('discharged', 'violated', 'undecided')]
    if len(real) < job.min_obligations:
        raise Undecided('vacuity: only %d obligations generated (expected at least %d)' % (len(real), job.min_obligations))
    if job.loop_contracts:
        if not any('loop_invariant_step' in (o.pid or '') for o in obs):
            raise Undecided('loop contracts were requested but no loop-invariant step obligation was generated (contract silently dropped)')
    if failed: res['status'] = 'violated'
    elif unknown: res['status'] = 'undecided'; res['note'] = '%d obligations UNKNOWN, e.g. %s' % (len(unknown), unknown[0].desc)
    else: res['status'] = 'ok'

def run_jobs(sess, jobs, workers=None):
    workers = workers or int(os.environ.get('OSMT_JOBS', '16'))
    # dump ASTs first (distinct TUs in parallel)
    tus = sorted(set(j.tu for j in jobs))
    with ThreadPoolExecutor(max_workers=min(len(tus), 8) or 1) as ex:
        def d(t):
            try: sess.tu(t)
            except Exception: pass
        list(ex.map(d, tus))
    # long jobs first, so that the tail of the run is not one slow solver call
    order = sorted(range(len(jobs)), key=lambda k: -getattr(jobs[k], 'weight', 1))
    out = [None] * len(jobs)
    with ThreadPoolExecutor(max_workers=workers) as ex:
        for k, r in zip(order, ex.map(lambda k: run_job(sess, jobs[k]), order)):
            out[k] = r
    return out

# ------------------------------------------------------------------ trace helpers
def trace_values(trace, names=None, prefix=None):
    """last assigned value of each (ghost) variable in a CBMC JSON trace"""
    vals = {}
    for s in trace or []:
        if s.get('stepType') != 'assignment': continue
        lhs = s.get('lhs', '')
        if (names and lhs in names) or (prefix and lhs.startswith(prefix)):
            v = s.get('value', {})
            vals[lhs] = v.get('data', v.get('name'))
    return vals

def toint(v, dflt=None):
    """integer value of a CBMC trace datum ('-5', '42u', '7ul', 'TRUE')"""
    if v is None: return dflt
    t = str(v).strip()
    if t in ('TRUE', 'true'): return 1
    if t in ('FALSE', 'false'): return 0
    m = re.match(r'^(-?\d+)[uUlL]*$', t)
    return int(m.group(1)) if m else dflt

def sha256_file(p):
    try: return hashlib.sha256(open(p, 'rb').read()).hexdigest()
    except Exception: return None
