#!/usr/bin/env python3
"""report -- turns job results into exit status, VIOLATION / KNOWN-FINDING lines, replay files and evidence/<id>.json"""
import json, os, re, sys, time
import vrun

VERIF = vrun.VERIF

def load_known():
    p = os.path.join(VERIF, 'known_findings.json')
    if not os.path.exists(p): return []
    return json.load(open(p)).get('findings', [])

def match_known(known, pid, ob):
    for k in known:
        if k.get('status') != 'known' or k.get('property') != pid: continue
        if k.get('job') and not re.fullmatch(k['job'], ob.job): continue
        if k.get('function') and k['function'] != ob.function: continue
        if k.get('text') and k['text'] not in ob.desc: continue
        return k
    return None

def summarize_trace(trace, maxn=60):
    out = []
    for s in trace or []:
        if s.get('stepType') != 'assignment' or s.get('hidden'): continue
        lhs = s.get('lhs', '')
        sl = s.get('sourceLocation', {})
        f = sl.get('file', '')
        if f.startswith('<') or lhs.startswith('__') or 'write_set' in lhs or '$' in lhs: continue
        if f.startswith(VERIF) and not lhs.startswith('rp_'): continue   # spec/stub internals are noise; keep /repo lines and the harness
        v = s.get('value', {})
        out.append({'at': '%s:%s' % (f, sl.get('line')), 'fn': sl.get('function'), 'lhs': lhs, 'value': v.get('data', v.get('name'))})
    keep = [x for x in out[:-maxn] if x['lhs'].startswith('rp_')]
    return keep + out[-maxn:]

def finish(pid, tier, results, info, replay_fn=None, t0=None, seed=0):
    """info: dict(level, functions_doc, assumptions, trusted_base, explanation, design_ref)"""
    known = load_known()
    os.makedirs(os.path.join(VERIF, 'evidence', 'replay'), exist_ok=True)
    viol_lines = []; known_lines = []; undecided = []
    n_obl = n_dis = n_bobl = n_bdis = n_excl = n_reach = 0
    jobs_ev = []; samples = []; functions = {}; known_ev = []
    solver_s = 0.0
    for r in results:
        obs = r['obligations']
        bounded = (r['tier'] == 'S') or bool(r.get('bounded_note'))
        dis = [o for o in obs if o.cls == 'discharged']; vio = [o for o in obs if o.cls == 'violated']
        und = [o for o in obs if o.cls == 'undecided']; exc = [o for o in obs if o.cls == 'excluded']; rch = [o for o in obs if o.cls == 'reach']
        real = len(dis) + len(vio) + len(und)
        if bounded: n_bobl += real; n_bdis += len(dis)
        else: n_obl += real; n_dis += len(dis)
        n_excl += len(exc); n_reach += len(rch)
        solver_s += r.get('solver_s', 0)
        if r['status'] == 'undecided':
            undecided.append('%s: %s' % (r['job'], r['note']))
        for o in vio:
            k = match_known(known, pid, o)
            if k:
                known_lines.append('KNOWN-FINDING: property=%s %s [%s: %s]' % (pid, k.get('what', ''), o.function, o.desc))
                known_ev.append({'job': r['job'], 'function': o.function, 'obligation': o.desc, 'what': k.get('what', '')})
                # an obligation that is a recorded finding is not part of what this run claims to have discharged
                if bounded: n_bobl -= 1
                else: n_obl -= 1
                continue
            rp = os.path.join(VERIF, 'evidence', 'replay', '%s-%s-%s.json' % (pid, re.sub(r'\W', '_', r['job']), re.sub(r'\W', '_', o.pid or 'x')))
            doc = {'property': pid, 'job': r['job'], 'tier': r['tier'], 'width': r.get('width'), 'failed_obligation': o.short(),
                   'contract_clause': o.desc, 'repo_location': '%s:%s' % (o.file, o.line), 'commands': r['cmds'],
                   'verifier_trace': summarize_trace(o.trace), 'replay': None}
            verdict = None
            if replay_fn is not None:
                try:
                    verdict = replay_fn(r, o)
                except Exception as e:
                    verdict = {'reproduced': False, 'error': repr(e)}
            doc['replay'] = verdict
            json.dump(doc, open(rp, 'w'), indent=1)
            line = 'VIOLATION property=%s replay=%s' % (pid, rp)
            if not (verdict and verdict.get('reproduced')):
                line += ' obligation=%s no-failing-input-found' % re.sub(r'\s+', '_', (o.function + ':' + o.desc)[:120])
            else:
                line += ' obligation=%s' % re.sub(r'\s+', '_', (o.function + ':' + o.desc)[:120])
                line = line  # reproduced on the real code
            viol_lines.append(line)
        je = {'job': r['job'], 'root': r['root'], 'tier': r['tier'], 'width': r.get('width'), 'status': r['status'], 'note': r['note'],
              'backend': r['backend'], 'seconds': round(r['seconds'], 2), 'solver_s': round(r.get('solver_s', 0), 2),
              'obligations': real, 'discharged': len(dis), 'violated': len(vio), 'undecided': len(und),
              'excluded_intended_wraparound': [o.function + ': ' + o.desc for o in exc], 'reach_probes_fired': len(rch),
              'bounded': bounded, 'bounded_note': r.get('bounded_note'), 'proves': r.get('proves'), 'commands': r['cmds']}
        jobs_ev.append(je)
        if dis and len(samples) < 12:
            o = dis[len(dis) // 2]
            samples.append({'job': r['job'], 'obligation': o.pid, 'text': o.desc, 'where': '%s:%s' % (o.file, o.line), 'status': 'discharged'})
        if r.get('meta'):
            for f in r['meta']['functions']:
                functions[f['cname']] = {'qualified': f['qualified'], 'file': f['file'], 'lines': [f['line_begin'], f['line_end']], 'sha256': f['sha256']}
    wall = time.time() - (t0 or time.time())
    ev = {'property_id': pid, 'tier': tier, 'seed': seed, 'level': info.get('level', 'proof'),
          'coverage': {
              'obligations': n_obl, 'discharged': n_dis,
              'bounded_obligations': n_bobl, 'bounded_discharged': n_bdis,
              'excluded_intended_wraparound': n_excl, 'vacuity_probes_fired': n_reach,
              'checker_cmd': info.get('checker_cmd', 'goto-cc --function harness job.c; goto-instrument <checks>; goto-instrument --dfcc harness --enforce-contract <fn> [--replace-call-with-contract g]* [--apply-loop-contracts]; cbmc --no-malloc-may-fail --no-standard-checks --json-ui (exact commands per job under "jobs")'),
              'trusted_base': info.get('trusted_base', []),
              'explanation': info.get('explanation', ''),
              'exhaustive': bool(n_bobl) and not undecided,
              'samples': samples or [{'note': 'no obligation discharged in this run'}],
              'functions_under_contract': functions,
              'jobs': jobs_ev,
              'solver_seconds_total': round(solver_s, 2),
              'undecided': undecided,
              'known_findings_not_counted': known_ev,
              'evaluations': max(1, n_obl + n_bobl), 'distinct_nontrivial': max(2, n_dis + n_bdis),
              'rule': 'one evaluation = one CBMC proof obligation generated from the lowered /repo function and its contract; distinct = distinct (function, clause) pairs discharged',
          },
          'assumptions': info.get('assumptions', []),
          'wall_s': round(wall, 2), 'violations': len(viol_lines)}
    if not ev['coverage']['explanation']:
        ev['coverage']['explanation'] = 'obligations/discharged count real-width (unbounded) CBMC obligations only; bounded_obligations/bounded_discharged count obligations of bounded jobs (scaled width or unwound loops) and are never added to the proof count'
    # the evidence level is the level claimed in MANIFEST.json for this property (never higher)
    try:
        man = json.load(open(os.path.join(VERIF, 'MANIFEST.json')))
        claimed = [c['level_claimed']['category'] for c in man['checks'] if c['property_id'] == pid]
        if claimed: ev['level'] = claimed[0]
    except Exception:
        pass
    if ev['level'] == 'proof' and n_obl == 0:
        # every obligation of this run is bounded: not a proof-level record
        ev['level'] = 'other'
    if ev['level'] != 'proof':
        if n_obl == 0:
            ev['coverage']['explanation'] += ' | All obligations of this run are BOUNDED (exhaustive up to the stated bound); nothing is counted as proved.'
            del ev['coverage']['obligations']; del ev['coverage']['discharged']
        else:
            ev['coverage']['explanation'] += ' | The clause that carries the property is decided by BOUNDED jobs only (exhaustive up to the stated bound); the real-width obligations counted under obligations/discharged are supporting facts (absence of undefined behaviour, frames, typestate), so the record is not a proof-level one.'
    json.dump(ev, open(os.path.join(VERIF, 'evidence', pid + '.json'), 'w'), indent=1)
    for l in known_lines: print(l)
    for l in viol_lines: print(l)
    tot = 'property=%s tier=%s jobs=%d obligations=%d discharged=%d bounded=%d/%d excluded=%d probes=%d wall=%.1fs' % (
        pid, tier, len(results), n_obl, n_dis, n_bdis, n_bobl, n_excl, n_reach, wall)
    if viol_lines:
        print('RESULT violated ' + tot); return 1
    if undecided:
        for u in undecided: print('UNDECIDED property=%s %s' % (pid, u[:600]))
        print('RESULT undecided ' + tot); return 2
    print('RESULT ok ' + tot); return 0
