#!/usr/bin/env python3
"""debug aid: print a compact tree of a function's clang JSON AST.  usage: astshow.py dump.json name-substring"""
import json,sys
def load(path):
    s=open(path).read();dec=json.JSONDecoder();i=0;objs=[]
    while True:
        while i<len(s) and s[i].isspace(): i+=1
        if i>=len(s): break
        o,i=dec.raw_decode(s,i); objs.append(o)
    return objs
def show(n,d=0):
    k=n.get('kind')
    extra=[]
    for key in ('name','opcode','value','castKind','valueCategory','isPostfix','mangledName'):
        if key in n: extra.append(f"{key}={n[key]}")
    if 'type' in n: extra.append('T='+n['type'].get('qualType','')+('|'+n['type']['desugaredQualType'] if 'desugaredQualType' in n['type'] else ''))
    if 'referencedDecl' in n: r=n['referencedDecl']; extra.append(f"ref={r.get('kind')}:{r.get('name')}:{r.get('id')}")
    if 'referencedMemberDecl' in n: extra.append('member='+n['referencedMemberDecl'])
    if 'id' in n and k and k.endswith('Decl'): extra.append('id='+n['id'])
    print('  '*d+str(k)+' '+' '.join(extra))
    for c in n.get('inner',[]): show(c,d+1)
if __name__=='__main__':
    objs=load(sys.argv[1])
    def walk(n):
        if n.get('kind') in('FunctionDecl','CXXMethodDecl','CXXConstructorDecl') and sys.argv[2] in (n.get('mangledName') or n.get('name','')) and any(c.get('kind')=='CompoundStmt' for c in n.get('inner',[])):
            show(n)
        for c in n.get('inner',[]): walk(c)
    for o in objs: walk(o)
