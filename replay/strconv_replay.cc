// Native replay for C16: runs the REAL isIntString / isRealString / stringToRational of /repo on one byte string (given as
// hex) and compares with an independent reading of the literal (GMP).  exit 0: agrees; 1: REPRODUCED; 3: outside the contract
#include "common/StringConv.h"
#include <gmpxx.h>
#include <cstring>
#include <iostream>
#include <string>
using namespace opensmt;
static bool dig(char c) { return c >= '0' && c <= '9'; }
int main(int argc, char **argv) {
    if (argc < 2) return 2;
    std::string hex = argv[1], s;
    for (size_t i = 0; i + 1 < hex.size(); i += 2) { char c = (char)std::stoi(hex.substr(i, 2), nullptr, 16); if (c == 0) break; s.push_back(c); }
    std::string p = (!s.empty() && s[0] == '-') ? s.substr(1) : s;
    // strict shapes: D+ | D+.D+ | D+/D+
    size_t i = 0; while (i < p.size() && dig(p[i])) i++;
    bool okA = i > 0; char sep = 0; size_t j = i;
    if (okA && i < p.size() && (p[i] == '.' || p[i] == '/')) { sep = p[i]; j = i + 1; while (j < p.size() && dig(p[j])) j++; }
    bool shape = okA && ((sep == 0 && i == p.size()) || (sep != 0 && j > i + 1 && j == p.size()));
    bool bad = p.empty(); for (char c : p) if (!(dig(c) || c == '.' || c == '/')) bad = true;
    bool badchars = bad;   // what the classifier must reject; a zero denominator is only the converter's business
    mpq_class want; bool strict = false;
    if (shape) {
        mpz_class a(p.substr(0, i), 10);
        if (sep == 0) { want = a; strict = true; }
        else { std::string b = p.substr(i + 1); mpz_class bb(b, 10);
            if (sep == '/') { if (bb != 0) { want = mpq_class(a, bb); want.canonicalize(); strict = true; } else bad = true; }
            else { mpz_class ten; mpz_ui_pow_ui(ten.get_mpz_t(), 10, b.size()); want = mpq_class(a * ten + bb, ten); want.canonicalize(); strict = true; } }
        if (!s.empty() && s[0] == '-') want = -want;
    }
    int rc = 0;
    bool isInt = isIntString(s.c_str());
    if (isInt != (shape && sep == 0)) { std::cout << "MISMATCH isIntString(\"" << s << "\") = " << isInt << "\n"; rc = 1; }
    bool isReal = isRealString(s.c_str());
    if (strict && !isReal) { std::cout << "MISMATCH isRealString rejects the literal \"" << s << "\"\n"; rc = 1; }
    if (badchars && isReal) { std::cout << "MISMATCH isRealString accepts \"" << s << "\"\n"; rc = 1; }
    if (strict || bad) {
        char *rat = nullptr; bool thrown = false;
        try { stringToRational(rat, s.c_str()); } catch (...) { thrown = true; }
        if (strict) {
            if (thrown) { std::cout << "MISMATCH stringToRational rejects \"" << s << "\"\n"; rc = 1; }
            else { mpq_class got(rat); got.canonicalize(); if (got != want) { std::cout << "MISMATCH stringToRational(\"" << s << "\") = " << got << ", the literal denotes " << want << "\n"; rc = 1; } }
        } else if (!thrown) { std::cout << "MISMATCH stringToRational accepts the ill-formed \"" << s << "\" as " << (rat ? rat : "?") << "\n"; rc = 1; }
        free(rat);
    }
    std::cout << (rc ? "REPRODUCED" : "AGREES") << " input=\"" << s << "\"\n";
    return rc;
}
