// Native replay of a verifier counterexample against the REAL opensmt::FastRational (compiled from /repo on each use).
// usage: fr_replay <op> <a_num> <a_den> <b_num> <b_den>      (values are decimal strings, arbitrary size)
// exit 0: the real code agrees with exact rational arithmetic (GMP mpq_class oracle) on this input
// exit 1: REPRODUCED -- prints what differs;   exit 3: input outside the precondition (non-canonical etc.)
#include "FastRational.h"
#include <gmpxx.h>
#include <iostream>
#include <string>
#include <cstdlib>
using opensmt::FastRational;
static FastRational mk(const mpq_class &q) { return FastRational(q.get_str().c_str()); }
static int bad = 0;
static void expect(const char *what, const FastRational &r, mpq_class want) {
    want.canonicalize();
    mpq_class got = r.getMpq();
    bool okv = (got == want);
    bool fits = want.get_num().fits_sint_p() && want.get_den().fits_uint_p();
    bool word = r.tryGetNumDen().has_value();
    FastRational fresh = mk(want);
    bool okh = r.getHashValue() == fresh.getHashValue();
    bool okeq = (r == fresh);
    if (!okv || fits != word || !okh || !okeq || !r.isWellFormed()) {
        std::cout << "MISMATCH " << what << ": got " << got << " want " << want << " value_ok=" << okv << " word_repr=" << word << " fits_word=" << fits
                  << " hash_ok=" << okh << " eq_ok=" << okeq << "\n";
        bad = 1;
    }
}
static mpz_class fdiv(const mpz_class &n, const mpz_class &d) { mpz_class q; mpz_fdiv_q(q.get_mpz_t(), n.get_mpz_t(), d.get_mpz_t()); return q; }
static mpz_class cdiv(const mpz_class &n, const mpz_class &d) { mpz_class q; mpz_cdiv_q(q.get_mpz_t(), n.get_mpz_t(), d.get_mpz_t()); return q; }
static int check(const std::string &op, mpq_class A, mpq_class B) {
    bad = 0;
    A.canonicalize(); B.canonicalize();
    FastRational a = mk(A), b = mk(B);
    if (op == "addition") expect("a+b", a + b, A + B);
    else if (op == "subtraction") expect("a-b", a - b, A - B);
    else if (op == "multiplication") expect("a*b", a * b, A * B);
    else if (op == "division") { if (B == 0) return 3; expect("a/b", a / b, A / B); }
    else if (op == "additionAssign") { FastRational c = a; c += b; expect("a+=b", c, A + B); }
    else if (op == "subtractionAssign") { FastRational c = a; c -= b; expect("a-=b", c, A - B); }
    else if (op == "multiplicationAssign") { FastRational c = a; c *= b; expect("a*=b", c, A * B); }
    else if (op == "divisionAssign") { if (B == 0) return 3; FastRational c = a; c /= b; expect("a/=b", c, A / B); }
    else if (op == "negate") { FastRational c = a; c.negate(); expect("negate", c, -A); expect("-a", -a, -A); }
    else if (op == "inverse") { if (A == 0) return 3; expect("inverse", a.inverse(), 1 / A); }
    else if (op == "ceil") expect("ceil", a.ceil(), mpq_class(cdiv(A.get_num(), A.get_den())));
    else if (op == "floor") expect("floor", a.floor(), mpq_class(fdiv(A.get_num(), A.get_den())));
    else if (op == "get_num") expect("get_num", a.get_num(), mpq_class(A.get_num()));
    else if (op == "get_den") expect("get_den", a.get_den(), mpq_class(A.get_den()));
    else if (op == "abs") expect("abs", abs(a), abs(A));
    else if (op == "cmpabs") { int c = cmpabs(a, b); int w = cmp(abs(A), abs(B)); if ((c > 0) - (c < 0) != (w > 0) - (w < 0)) { std::cout << "MISMATCH cmpabs got " << c << " want " << w << "\n"; bad = 1; } }
    else if (op == "compare") { int c = a.compare(b); int w = cmp(A, B); if ((c > 0) - (c < 0) != (w > 0) - (w < 0)) { std::cout << "MISMATCH compare got " << c << " want " << w << "\n"; bad = 1; }
        if ((a == b) != (A == B) || (a < b) != (A < B) || (a <= b) != (A <= B) || (a > b) != (A > B) || (a >= b) != (A >= B) || (a != b) != (A != B)) { std::cout << "MISMATCH relational operators\n"; bad = 1; } }
    else if (op == "query") { if (a.sign() != sgn(A) || a.isInteger() != (A.get_den() == 1) || a.isZero() != (A == 0) || a.isOne() != (A == 1)) { std::cout << "MISMATCH sign/isInteger/isZero/isOne\n"; bad = 1; } }
    else if (op == "mod") { if (A.get_den() != 1 || B.get_den() != 1 || B == 0) return 3; mpz_class m; mpz_fdiv_r(m.get_mpz_t(), A.get_num().get_mpz_t(), B.get_num().get_mpz_t()); expect("a%b (sign of divisor)", a % b, mpq_class(m)); }
    else if (op == "fdiv_q") { if (A.get_den() != 1 || B.get_den() != 1 || B == 0) return 3; expect("fastrat_fdiv_q", fastrat_fdiv_q(a, b), mpq_class(fdiv(A.get_num(), B.get_num()))); }
    else if (op == "divexact") { if (A.get_den() != 1 || B.get_den() != 1 || B == 0) return 3; mpz_class q = A.get_num() / B.get_num(); if (q * B.get_num() != A.get_num()) return 3; expect("divexact", divexact(a, b), mpq_class(q)); }
    else if (op == "gcd") { if (A.get_den() != 1 || B.get_den() != 1) return 3; mpz_class g; mpz_gcd(g.get_mpz_t(), A.get_num().get_mpz_t(), B.get_num().get_mpz_t()); expect("gcd", gcd(a, b), mpq_class(g)); }
    else if (op == "lcm") { if (A.get_den() != 1 || B.get_den() != 1) return 3; mpz_class g; mpz_lcm(g.get_mpz_t(), A.get_num().get_mpz_t(), B.get_num().get_mpz_t()); expect("lcm", lcm(a, b), mpq_class(g)); }
    else if (op == "round") { mpz_class two_n = 2 * A.get_num() + A.get_den(); expect("fastrat_round_to_int", fastrat_round_to_int(a), mpq_class(fdiv(two_n, 2 * A.get_den()))); }
    else { std::cout << "unknown op\n"; return 2; }
    if (bad) std::cout << "REPRODUCED op=" << op << " a=" << A << " b=" << B << "\n";
    return bad;
}
// "sweep": a fixed corpus of boundary values around 0, +-1, 2^15, 2^16, 2^31, 2^32, 2^53, 2^63 (replay aid only: it helps to
// turn a failed obligation into a concrete input; it decides nothing)
int main(int argc, char **argv) {
    if (argc < 2) return 2;
    std::string op = argv[1];
    if (argc >= 3 && std::string(argv[2]) == "sweep") {
        const char *nums[] = {"0","1","-1","2","-2","3","-3","4","-4","6","-6","7","-7","46341","65536","-65536","65537","2147483647","-2147483647","-2147483648","2147483648","4294967295","4294967296","-4294967296","9007199254740993","9223372036854775807","-9223372036854775808","18446744073709551617"};
        const char *dens[] = {"1","2","3","4","6","7","46341","65536","65537","2147483647","2147483648","4294967291","4294967294","4294967295","4294967296","18446744073709551617"};
        for (auto an : nums) for (auto ad : dens) for (auto bn : nums) for (auto bd : dens) {
            mpq_class A(std::string(an) + "/" + ad), B(std::string(bn) + "/" + bd);
            if (check(op, A, B) == 1) return 1;
        }
        std::cout << "AGREES on the whole corpus op=" << op << "\n"; return 0;
    }
    if (argc < 6) return 2;
    mpq_class A(std::string(argv[2]) + "/" + argv[3]), B(std::string(argv[4]) + "/" + argv[5]);
    if (A.get_den() <= 0 || B.get_den() <= 0) { std::cout << "non-positive denominator\n"; return 3; }
    int r = check(op, A, B);
    if (r == 0) std::cout << "AGREES op=" << op << " a=" << A << " b=" << B << "\n";
    return r;
}
