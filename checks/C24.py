"""C24 -- Solver instances in different threads do not interfere (partial: ownership of the state written by the number type)."""
import os, re
from vrun import Job, VERIF
import checks.C15 as C15

H_ALLOC = '''void harness(void) { struct FastRational__mpqPool P; g_pool_obj = &P; g_held_mutex = 0; g_pool_size = nondet_bool() ? 0 : 3; g_pool_top = malloc(sizeof(__mpq_struct));
  mpq_ptr r = FastRational__mpqPool__alloc(&P);
  __CPROVER_assert(r != (mpq_ptr)0, "alloc returns an object");
  OSMT_REACH("return");
}
'''
H_RELEASE = '''void harness(void) { struct FastRational__mpqPool P; g_pool_obj = &P; g_held_mutex = 0; g_pool_size = nondet_bool() ? 0 : 3; mpq_ptr p = malloc(sizeof(__mpq_struct));
  FastRational__mpqPool__release(&P, p);
  OSMT_REACH("return");
}
'''
H_CUT = '''t_bool SMTConfig__produce_inter(void *self) { return nondet_bool(); }
void harness(void) { t_bool r = LASolver__shouldTryCutFromProof((struct LASolver *)0); OSMT_REACH("return"); }
'''
FRAME_JOBS = r'^(addition|subtraction|multiplication|division|additionAssign|subtractionAssign|multiplicationAssign|divisionAssign|ceil|negate|ctor_copy|assign_copy|ensure_mpq_valid|kill_mpq|gcd|fastrat_fdiv_q)\.R$'

def jobs(tier):
    J = [Job('mpqPool_alloc.R', C15.TU, 'opensmt::FastRational::mpqPool::alloc', tier='R', header='contracts/C15/pool.h', harness=H_ALLOC, enforce=False, min_obligations=3,
             proves='every container access of the shared pool happens under the pool mutex'),
         Job('mpqPool_release.R', C15.TU, 'opensmt::FastRational::mpqPool::release', tier='R', header='contracts/C15/pool.h', harness=H_RELEASE, enforce=False, min_obligations=2)]
    J += [j for j in C15.jobs_R() if re.search(FRAME_JOBS, j.name)]
    # per-instance decisions of the LIA solver must not read or write process-wide state (found by a seeding agent: a function-local static counter)
    J.append(Job('shouldTryCutFromProof.R', 'src/tsolvers/lasolver/LASolver.cc', 'opensmt::LASolver::shouldTryCutFromProof', tier='R', header='contracts/C25/stop.h', harness=H_CUT, enforce=False,
                 pre_includes=('stubs/gmp_types.h', 'stubs/std_types.h'), stubs=('opensmt::SMTConfig::produce_inter',), opaque=('opensmt::LASolver', 'opensmt::TSolver', 'opensmt::SMTConfig'), min_obligations=1, default_unwind=3,
                 proves='the cut heuristic of one solver instance depends on that instance only'))
    return J

SHARED_OK = {'g_FastRational__pool': 'process-wide, accessed only through mpqPool::alloc/release, which hold the pool mutex (jobs mpqPool_alloc.R / mpqPool_release.R)'}

def post(sess, tier, results):
    """ownership condition over the frames CBMC accepted: classify every global object the lowered code touches by its storage"""
    import vrun
    cls = {}
    bad = []
    for r in results:
        for g in (r.get('meta') or {}).get('globals', []):
            name = g['cname']
            if g.get('dynamic_init') and not g.get('tls'): k = 'shared, unprotected'      # a process-wide object initialised from whatever the first caller (thread) computed
            elif re.search(r'\\bconst\\b', g['type']) or name.endswith('Mask'): k = 'constant'
            elif g.get('tls'): k = 'thread_local'
            elif name in SHARED_OK: k = 'shared, lock-protected'
            else: k = 'shared, unprotected'
            cls[name] = {'qualified': g['qualified'], 'type': g['type'], 'storage': g.get('storage'), 'tls': g.get('tls'), 'where': '%s:%s' % (g.get('file'), g.get('line')), 'class': k}
            if k == 'shared, unprotected': bad.append((r, name, g))
    post.classification = cls
    # a shared unprotected object in a frame is reported through a synthetic failed obligation of the job that touches it
    for r, name, g in bad:
        o = vrun.Obligation(r['job'], {'property': 'ownership.' + name, 'description': 'ownership: %s (%s) is process-wide, not thread_local, and written without a lock' % (g['qualified'], g['type']),
                                      'status': 'FAILURE', 'sourceLocation': {'file': g.get('file', ''), 'line': str(g.get('line')), 'function': r.get('root_cname', '')}})
        o.cls = 'violated'; r['obligations'].append(o); r['status'] = 'violated'

def info(tier, results):
    return {'level': 'other', 'trusted_base': ['clang 14 AST', 'osmt2c lowering', 'CBMC 6.11 (dfcc frame checking)'],
            'assumptions': ['std::mutex / std::lock_guard / std::stack behave as their stub contracts say', 'the lock_guard destructor (unlock) is dropped by the lowering; the lock is modelled as held until the function returns'],
            'explanation': 'Frame (assigns) clauses of the FastRational operations are enforced by CBMC (a write outside the clause fails an obligation). Every global object that the lowered code of these operations refers to is then classified from its AST declaration: ' + repr(getattr(post, 'classification', {}))}
