"""C22 -- Theory solver verdicts depend only on the asserted literals (partial: the bound stacks of the LA model are restored exactly by backtracking)."""
import os, re
from vrun import Job, VERIF
import checks.C26 as C26
H = '''static void compare(void) {
  for (int v = 0; v < NVAR; v++) for (int k = 0; k < 2; k++) {
    struct vec_LABoundRef *s = k == 0 ? &h_lbs[v] : &h_ubs[v];
    __CPROVER_assert(s->sz == g_sz[v][k], "the stack of active bounds has exactly the bounds asserted and not yet retracted");
    for (int i = 0; i < DEPTH; i++) if (i < g_sz[v][k]) __CPROVER_assert(s->data[i].x == g_st[v][k][i], "the active bounds are the asserted ones, in assertion order");
    struct LVRef var; var.x = (t_u32)v;
    t_bool has = k == 0 ? LRAModel__hasLBound(&h_m, var) : LRAModel__hasUBound(&h_m, var);
    __CPROVER_assert(has == (g_sz[v][k] > 0), "a variable has an active bound exactly if one is asserted");
    if (g_sz[v][k] > 0) { struct LABoundRef top = k == 0 ? LRAModel__readLBoundRef(&h_m, var) : LRAModel__readUBoundRef(&h_m, var);
      __CPROVER_assert(top.x == g_st[v][k][g_sz[v][k] - 1], "the bound the Simplex reads is the most recently asserted active one"); } } }
void harness(void) {
  for (int b = 0; b < NB; b++) { h_b[b].type = nondet_bool() ? 1 : 0; h_b[b].var.x = nondet_bool() ? 1 : 0; }
  __CPROVER_assert(g_bound_u.t == 1, "harness encodes the bound kinds as the source does");
  /* a fresh model: LRAModel's constructor pushes the limit 0 */
  h_m.bs = (struct LABoundStore *)0; t_int zero = 0; vec_int__push__int_R(&h_m.bound_limits, &zero);
  g_level = 0;
  for (int step = 0; step < C22_STEPS; step++) {
    t_uchar op = nondet_uchar() % 3;
    if (op == 0 && g_level < DEPTH - 1) {                        /* pushBacktrackPoint */
      for (int v = 0; v < NVAR; v++) for (int k = 0; k < 2; k++) g_saved[g_level][v][k] = g_sz[v][k];
      g_level++; LRAModel__pushBacktrackPoint(&h_m);
    } else if (op == 1) {                                      /* pushBound */
      struct LABoundRef br; br.x = nondet_uchar() % NB; int v = (int)h_b[br.x].var.x, k = h_b[br.x].type == 1 ? 1 : 0;
      if (g_sz[v][k] < DEPTH - 1) { g_st[v][k][g_sz[v][k]] = br.x; g_sz[v][k]++; LRAModel__pushBound(&h_m, br); }
    } else if (op == 2 && g_level > 0) {                       /* popBacktrackPoint */
      g_level--; for (int v = 0; v < NVAR; v++) for (int k = 0; k < 2; k++) g_sz[v][k] = g_saved[g_level][v][k];
      LRAModel__popBacktrackPoint(&h_m);
    }
    compare();
  }
  OSMT_REACH("return");
}
'''
H_INV = '''/* an ARBITRARY well-formed state: any bound trace of at most TR entries and any non-decreasing list of limits; the per-variable stacks are, by the
   representation invariant, the projections of the trace.  One arbitrary operation must re-establish the invariant and act on the trace as the reference model says. */
#define TR 4
static void project(t_u32 *trace, int n) {      /* reference stacks := projection of trace[0..n) */
  for (int v = 0; v < NVAR; v++) for (int k = 0; k < 2; k++) g_sz[v][k] = 0;
  for (int i = 0; i < TR + 1; i++) if (i < n) { int v = (int)h_b[trace[i]].var.x, k = h_b[trace[i]].type == 1 ? 1 : 0; g_st[v][k][g_sz[v][k]] = trace[i]; g_sz[v][k]++; } }
static void check_state(t_u32 *trace, int n, const char *unused) {
  __CPROVER_assert(h_m.bound_trace.sz == n, "the trace holds exactly the bounds asserted and not retracted");
  for (int i = 0; i < TR + 1; i++) if (i < n) __CPROVER_assert(h_m.bound_trace.data[i].x == trace[i], "the trace keeps the assertion order");
  project(trace, n);
  for (int v = 0; v < NVAR; v++) for (int k = 0; k < 2; k++) {
    struct vec_LABoundRef *s = k == 0 ? &h_lbs[v] : &h_ubs[v];
    __CPROVER_assert(s->sz == g_sz[v][k], "representation invariant: each stack is the projection of the trace (size)");
    for (int i = 0; i < TR + 1; i++) if (i < g_sz[v][k]) __CPROVER_assert(s->data[i].x == g_st[v][k][i], "representation invariant: each stack is the projection of the trace (content)"); } }
void harness(void) {
  for (int b = 0; b < NB; b++) { h_b[b].type = nondet_bool() ? 1 : 0; h_b[b].var.x = nondet_bool() ? 1 : 0; }
  h_m.bs = (struct LABoundStore *)0;
  /* arbitrary trace and limits */
  t_u32 trace[TR + 1]; int n = nondet_uchar() % (TR + 1);
  for (int i = 0; i < TR + 1; i++) trace[i] = nondet_uchar() % NB;
  int nl = 1 + nondet_uchar() % 3; t_int lim[3]; lim[0] = 0;
  for (int i = 1; i < 3; i++) { lim[i] = nondet_uchar() % (TR + 1); __CPROVER_assume(lim[i] >= lim[i - 1]); }
  for (int i = 0; i < 3; i++) if (i < nl) __CPROVER_assume(lim[i] <= n);
  /* build the real structure in that state: trace, limits, stacks = projection */
  for (int i = 0; i < 3; i++) if (i < nl) vec_int__push__int_R(&h_m.bound_limits, &lim[i]);
  for (int i = 0; i < TR + 1; i++) if (i < n) { struct LABoundRef br; br.x = trace[i]; vec_LABoundRef__push__LABoundRef_R(&h_m.bound_trace, &br);
    int v = (int)h_b[trace[i]].var.x; struct vec_LABoundRef *s = h_b[trace[i]].type == 1 ? &h_ubs[v] : &h_lbs[v]; vec_LABoundRef__push__LABoundRef_R(s, &br); }
  t_uchar op = nondet_uchar() % 3;
  if (op == 0) { LRAModel__pushBacktrackPoint(&h_m);
    __CPROVER_assert(h_m.bound_limits.sz == nl + 1 && h_m.bound_limits.data[nl] == n, "a backtrack point remembers the current length of the trace");
    check_state(trace, n, "");
  } else if (op == 1) { __CPROVER_assume(n < TR); struct LABoundRef br; br.x = nondet_uchar() % NB; LRAModel__pushBound(&h_m, br); trace[n] = br.x;
    __CPROVER_assert(h_m.bound_limits.sz == nl, "asserting a bound leaves the backtrack points alone");
    check_state(trace, n + 1, "");
  } else { __CPROVER_assume(nl >= 2); LRAModel__popBacktrackPoint(&h_m);
    __CPROVER_assert(h_m.bound_limits.sz == nl - 1, "one backtrack point is removed");
    check_state(trace, (int)lim[nl - 1], "");      /* exactly the bounds asserted before that point survive */
  }
  OSMT_REACH("return");
}
'''
def invariant_job():
    return Job('LRAModel_invariant.R', 'src/tsolvers/lasolver/LRAModel.cc', 'opensmt::LRAModel::popBacktrackPoint', tier='R', header='contracts/C22/lramodel.h', harness=H_INV, enforce=False,
               extra_roots=('opensmt::LRAModel::pushBound', 'opensmt::LRAModel::pushBacktrackPoint'),
               pre_includes=('stubs/gmp_types.h', 'stubs/std_types.h', 'contracts/C22/types.h'),
               stubs=('opensmt::LABoundStore::operator[]', 'vec_LABoundRef__capacity__int', 'vec_int__capacity__int'), opaque=('opensmt::LABoundStore',),
               default_unwind=9, min_obligations=5, object_bits=12, timeout=1800, weight=10,
               bounded_note='inductive in the history: ANY state that satisfies the representation invariant with at most 4 live bounds and 3 backtrack points, then one arbitrary operation',
               proves='each operation preserves the representation invariant (stacks = projections of the trace) and changes the trace as the reference model says: push appends, a backtrack point remembers the length, pop truncates to it')
def activation_job():
    j = C26.ab_job(extra_defines=('C22_ACTIVATION',))
    j.name = 'assertBound_activation.R'
    j.proves = 'Simplex::assertBound raises the per-variable count of active bounds exactly when it accepts the bound (the pairing with boundDeactivated on retraction)'
    return j
def jobs(tier):
    steps = 5 if tier == 'quick' else 6
    return [Job('LRAModel_backtrack.R', 'src/tsolvers/lasolver/LRAModel.cc', 'opensmt::LRAModel::popBacktrackPoint', tier='R', header='contracts/C22/lramodel.h', harness=H, enforce=False,
                extra_roots=('opensmt::LRAModel::pushBound', 'opensmt::LRAModel::pushBacktrackPoint', 'opensmt::LRAModel::readLBoundRef', 'opensmt::LRAModel::readUBoundRef', 'opensmt::LRAModel::hasLBound', 'opensmt::LRAModel::hasUBound'),
                pre_includes=('stubs/gmp_types.h', 'stubs/std_types.h', 'contracts/C22/types.h'),
                stubs=('opensmt::LABoundStore::operator[]', 'vec_LABoundRef__capacity__int', 'vec_int__capacity__int'), opaque=('opensmt::LABoundStore',),
                defines=('C22_STEPS %d' % steps,), unwindset=('harness.1:%d' % (steps + 1),), default_unwind=9, min_obligations=5, object_bits=12, timeout=1800, weight=10,
                bounded_note='every sequence of at most %d operations' % steps + ' (pushBacktrackPoint / pushBound / popBacktrackPoint) over 2 variables and 6 bounds of arbitrary kind, from the empty model',
                proves='backtracking restores the bound stacks exactly: retracted bounds leave no trace, the others stay'),
            activation_job(), invariant_job()]
def info(tier, results):
    return {'level': 'other', 'trusted_base': ['clang 14 AST', 'osmt2c lowering', 'CBMC 6.11'],
            'assumptions': ['LABoundStore::operator[] returns the bound (variable, kind) for a reference; std::vector<vec<LABoundRef>>::operator[] returns the per-variable stack (stubs of contracts/C22/lramodel.h)', 'vec<T> storage as typed pool blocks'],
            'explanation': ''}
