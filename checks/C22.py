"""C22 -- Theory solver verdicts depend only on the asserted literals (partial: the bound stacks of the LA model are restored exactly by backtracking)."""
import os, re
from vrun import Job, VERIF
import checks.C26 as C26
H = '''static void compare(void) {
  for (int v = 0; v < NVAR; v++) for (int k = 0; k < 2; k++) {
    struct vec_LABoundRef *s = k == 0 ? &h_lbs[v] : &h_ubs[v];
    __CPROVER_assert(s->sz == g_sz[v][k], "the stack of active bounds has exactly the bounds asserted and not yet retracted");
    for (int i = 0; i < DEPTH; i++) if (i < g_sz[v][k]) __CPROVER_assert(s->data[i].x == g_st[v][k][i], "the active bounds are the asserted ones, in assertion order");
    struct LVRef var; var.x = (t_u32)v;
    t_bool has = k == 0 ? LRAModel__hasLBound(&h_m, var) : LRAModel__hasUBound(&h_m, var);
    __CPROVER_assert(has == (g_sz[v][k] > 0), "a variable has an active bound exactly if one is asserted");
    if (g_sz[v][k] > 0) { struct LABoundRef top = k == 0 ? LRAModel__readLBoundRef(&h_m, var) : LRAModel__readUBoundRef(&h_m, var);
      __CPROVER_assert(top.x == g_st[v][k][g_sz[v][k] - 1], "the bound the Simplex reads is the most recently asserted active one"); } } }
void harness(void) {
  for (int b = 0; b < NB; b++) { h_b[b].type = nondet_bool() ? 1 : 0; h_b[b].var.x = nondet_bool() ? 1 : 0; }
  __CPROVER_assert(g_bound_u.t == 1, "harness encodes the bound kinds as the source does");
  /* a fresh model: LRAModel's constructor pushes the limit 0 */
  h_m.bs = (struct LABoundStore *)0; t_int zero = 0; vec_int__push__int_R(&h_m.bound_limits, &zero);
  g_level = 0;
  for (int step = 0; step < C22_STEPS; step++) {
    t_uchar op = nondet_uchar() % 3;
    if (op == 0 && g_level < DEPTH - 1) {                        /* pushBacktrackPoint */
      for (int v = 0; v < NVAR; v++) for (int k = 0; k < 2; k++) g_saved[g_level][v][k] = g_sz[v][k];
      g_level++; LRAModel__pushBacktrackPoint(&h_m);
    } else if (op == 1) {                                      /* pushBound */
      struct LABoundRef br; br.x = nondet_uchar() % NB; int v = (int)h_b[br.x].var.x, k = h_b[br.x].type == 1 ? 1 : 0;
      if (g_sz[v][k] < DEPTH - 1) { g_st[v][k][g_sz[v][k]] = br.x; g_sz[v][k]++; LRAModel__pushBound(&h_m, br); }
    } else if (op == 2 && g_level > 0) {                       /* popBacktrackPoint */
      g_level--; for (int v = 0; v < NVAR; v++) for (int k = 0; k < 2; k++) g_sz[v][k] = g_saved[g_level][v][k];
      LRAModel__popBacktrackPoint(&h_m);
    }
    compare();
  }
  OSMT_REACH("return");
}
'''
def activation_job():
    j = C26.ab_job(extra_defines=('C22_ACTIVATION',))
    j.name = 'assertBound_activation.R'
    j.proves = 'Simplex::assertBound raises the per-variable count of active bounds exactly when it accepts the bound (the pairing with boundDeactivated on retraction)'
    return j
def jobs(tier):
    steps = 5 if tier == 'quick' else 6
    return [Job('LRAModel_backtrack.R', 'src/tsolvers/lasolver/LRAModel.cc', 'opensmt::LRAModel::popBacktrackPoint', tier='R', header='contracts/C22/lramodel.h', harness=H, enforce=False,
                extra_roots=('opensmt::LRAModel::pushBound', 'opensmt::LRAModel::pushBacktrackPoint', 'opensmt::LRAModel::readLBoundRef', 'opensmt::LRAModel::readUBoundRef', 'opensmt::LRAModel::hasLBound', 'opensmt::LRAModel::hasUBound'),
                pre_includes=('stubs/gmp_types.h', 'stubs/std_types.h', 'contracts/C22/types.h'),
                stubs=('opensmt::LABoundStore::operator[]', 'vec_LABoundRef__capacity__int', 'vec_int__capacity__int'), opaque=('opensmt::LABoundStore',),
                defines=('C22_STEPS %d' % steps,), unwindset=('harness.1:%d' % (steps + 1),), default_unwind=9, min_obligations=5, object_bits=12, timeout=1800, weight=10,
                bounded_note='every sequence of at most %d operations' % steps + ' (pushBacktrackPoint / pushBound / popBacktrackPoint) over 2 variables and 6 bounds of arbitrary kind, from the empty model',
                proves='backtracking restores the bound stacks exactly: retracted bounds leave no trace, the others stay'),
            activation_job()]
def info(tier, results):
    return {'level': 'other', 'trusted_base': ['clang 14 AST', 'osmt2c lowering', 'CBMC 6.11'],
            'assumptions': ['LABoundStore::operator[] returns the bound (variable, kind) for a reference; std::vector<vec<LABoundRef>>::operator[] returns the per-variable stack (stubs of contracts/C22/lramodel.h)', 'vec<T> storage as typed pool blocks'],
            'explanation': ''}
