"""C14 -- Term constructors return equivalent terms (partial: Boolean connectives, ite, equality; constant folding of div/mod)."""
import os, re
from vrun import Job, VERIF
import checks.C27 as C27
LOGIC_STUBS = ('opensmt::Logic::mkFun', 'opensmt::Logic::termSort', 'opensmt::Logic::hasSortBool', 'opensmt::Logic::isNot', 'opensmt::Logic::isTrue', 'opensmt::Logic::isFalse', 'opensmt::Logic::getPterm',
               'opensmt::Logic::getTerm_true', 'opensmt::Logic::getTerm_false', 'opensmt::Logic::getSym_not', 'opensmt::Logic::getSym_and', 'opensmt::Logic::getSym_or', 'opensmt::Logic::getSym_xor',
               'opensmt::Logic::getSortRef', 'opensmt::Logic::getSort_bool', 'opensmt::Logic::isConstant', 'opensmt::Pterm::operator[]', 'opensmt::Pterm::size', 'vec_PTRef__capacity__int', 'vec_PtAsgn__capacity__int', 'Map_SRef_SymRef_SRefHash_Equal_SRef__has', 'Map_SRef_SymRef_SRefHash_Equal_SRef__op_index__SRef_R_646f1c')
H_PRE = '''/* the argument pool: true, false, Boolean atoms a b c with arbitrary truth values, their negations, one conjunction, one disjunction; two variables and two
   distinct constants of the uninterpreted sort */
static t_u32 h_pool_n;
static void h_setup(void) {
  h_init();
  struct PTRef a = h_mk(K_ATOM, S_BOOL, nondet_bool()), b = h_mk(K_ATOM, S_BOOL, nondet_bool()), c = h_mk(K_ATOM, S_BOOL, nondet_bool());
  struct PTRef u = h_mk(K_UVAR, S_U, nondet_uchar() & 3), v = h_mk(K_UVAR, S_U, nondet_uchar() & 3), k1 = h_mk(K_UCONST, S_U, 0), k2 = h_mk(K_UCONST, S_U, 1);
  h_app(K_NOT, 1, a.x, 0, 0); h_app(K_NOT, 1, b.x, 0, 0);
  struct PTRef ab = h_app(K_AND, 2, a.x, c.x, 0); h_app(K_NOT, 1, ab.x, 0, 0);
  h_pool_n = (t_u32)g_nt; g_mkfun_calls = 0;
}
static struct PTRef h_pick(void) { struct PTRef r; r.x = nondet_uchar(); __CPROVER_assume(r.x < h_pool_n); return r; }
static struct PTRef h_pick_bool(void) { struct PTRef r = h_pick(); __CPROVER_assume(g_t[r.x].sort == S_BOOL); return r; }
#define RES_OK(r) __CPROVER_assert((r).x < (t_u32)g_nt, "the result is a term of the store")
#define RES_BOOL(r) __CPROVER_assert(g_t[(r).x < NT ? (r).x : 0].sort == S_BOOL, "the result has sort Bool")
'''
def bjob(name, root, harness, defines=(), extra_stubs=(), **kw):
    return Job(name + '.R', 'src/logics/Logic.cc', root, tier='R', header='contracts/C14/bool.h', harness=H_PRE + harness, enforce=False, pre_includes=('stubs/gmp_types.h', 'stubs/std_types.h', 'contracts/C14/types.h'),
               defines=defines, stubs=LOGIC_STUBS + tuple(extra_stubs), opaque=('opensmt::Logic', 'opensmt::Pterm', 'opensmt::PtStore'), default_unwind=26, min_obligations=3, object_bits=12, **kw)
H_NOT = '''void harness(void) { h_setup(); struct PTRef x = h_pick_bool();
  struct PTRef r = Logic__mkNot__PTRef((struct Logic *)0, x);
  RES_OK(r); RES_BOOL(r);
  __CPROVER_assert(den_of(r.x) == !den_of(x.x), "mkNot(x) denotes the negation of x");
  OSMT_REACH("return");
}
'''
HARNESS = {'mkImpl': ('Logic__mkImpl__vec_PTRef_RR', 'void harness(void) { h_setup(); struct PTRef x = h_pick_bool(), y = h_pick_bool();\n  struct PTRef d[3]; d[0] = x; d[1] = y; struct vec_PTRef v; v.data = d; v.sz = 2; v.cap = 3;\n  struct PTRef r = Logic__mkImpl__vec_PTRef_RR((struct Logic *)0, &v);\n  RES_OK(r); RES_BOOL(r);\n  __CPROVER_assert(den_of(r.x) == (!den_of(x.x) || den_of(y.x)), "mkImpl(x, y) denotes x => y");\n  OSMT_REACH("return");\n}\n', ()), 'mkXor': ('Logic__mkXor__vec_PTRef_RR', 'void harness(void) { h_setup(); struct PTRef x = h_pick_bool(), y = h_pick_bool();\n  struct PTRef d[3]; d[0] = x; d[1] = y; struct vec_PTRef v; v.data = d; v.sz = 2; v.cap = 3;\n  struct PTRef r = Logic__mkXor__vec_PTRef_RR((struct Logic *)0, &v);\n  RES_OK(r); RES_BOOL(r);\n  __CPROVER_assert(den_of(r.x) == (den_of(x.x) != den_of(y.x)), "mkXor(x, y) denotes x xor y");\n  OSMT_REACH("return");\n}\n', ()), 'mkIte': ('Logic__mkIte__vec_PTRef_RR', 'void harness(void) { h_setup(); struct PTRef c = h_pick_bool(), x = h_pick(), y = h_pick(); __CPROVER_assume(g_t[x.x].sort == g_t[y.x].sort);\n  struct PTRef d[3]; d[0] = c; d[1] = x; d[2] = y; struct vec_PTRef v; v.data = d; v.sz = 3; v.cap = 3;\n  struct PTRef r = Logic__mkIte__vec_PTRef_RR((struct Logic *)0, &v);\n  __CPROVER_assert(!__osmt_thrown, "a well-sorted ite is accepted");\n  RES_OK(r); __CPROVER_assert(g_t[r.x < NT ? r.x : 0].sort == g_t[x.x].sort, "the ite has the sort of its branches");\n  __CPROVER_assert(den_of(r.x) == (den_of(c.x) ? den_of(x.x) : den_of(y.x)), "mkIte(c, x, y) denotes if c then x else y");\n  OSMT_REACH("return");\n}\n', ('C14_SORTS', 'C14_MAPS', 'C14_ITE')), 'mkBinaryEq': ('opensmt::Logic::mkBinaryEq', 'void harness(void) { h_setup(); struct PTRef x = h_pick(), y = h_pick(); __CPROVER_assume(g_t[x.x].sort == g_t[y.x].sort);\n  struct PTRef r = Logic__mkBinaryEq((struct Logic *)0, x, y);\n  RES_OK(r); RES_BOOL(r);\n  __CPROVER_assert(den_of(r.x) == (den_of(x.x) == den_of(y.x)), "mkBinaryEq(x, y) denotes x = y (different constants denote different values)");\n  OSMT_REACH("return");\n}\n', ('C14_SORTS', 'C14_MAPS')), 'mkAnd': ('Logic__mkAnd__vec_PTRef_RR', 'void harness(void) { h_setup(); t_int n = nondet_uchar() & 3;\n  struct PTRef d[3]; t_bool want = 1;\n  for (int k = 0; k < 3; k++) if (k < n) { d[k] = h_pick_bool(); want = want && (den_of(d[k].x) != 0); }\n  struct vec_PTRef v; v.data = (struct PTRef *)0; v.sz = 0; v.cap = 0; vec_PTRef__capacity__int(&v, 3); for (int k = 0; k < 3; k++) if (k < n) v.data[k] = d[k]; v.sz = n; v.cap = 3;\n  struct PTRef r = Logic__mkAnd__vec_PTRef_RR((struct Logic *)0, &v);\n  RES_OK(r); RES_BOOL(r);\n  __CPROVER_assert((den_of(r.x) != 0) == want, "mkAnd(args) denotes the conjunction of its arguments (0 to 3 arguments, any repetition or complement among them)");\n  OSMT_REACH("return");\n}\n', ('C14_SORTCALL',)), 'mkOr': ('Logic__mkOr__vec_PTRef_RR', 'void harness(void) { h_setup(); t_int n = nondet_uchar() & 3;\n  struct PTRef d[3]; t_bool want = 0;\n  for (int k = 0; k < 3; k++) if (k < n) { d[k] = h_pick_bool(); want = want || (den_of(d[k].x) != 0); }\n  struct vec_PTRef v; v.data = (struct PTRef *)0; v.sz = 0; v.cap = 0; vec_PTRef__capacity__int(&v, 3); for (int k = 0; k < 3; k++) if (k < n) v.data[k] = d[k]; v.sz = n; v.cap = 3;\n  struct PTRef r = Logic__mkOr__vec_PTRef_RR((struct Logic *)0, &v);\n  RES_OK(r); RES_BOOL(r);\n  __CPROVER_assert((den_of(r.x) != 0) == want, "mkOr(args) denotes the disjunction of its arguments (0 to 3 arguments, any repetition or complement among them)");\n  OSMT_REACH("return");\n}\n', ('C14_SORTCALL',)), 'mkEq': ('Logic__mkEq__vec_PTRef_RR', 'void harness(void) { h_setup(); t_int n = 2 + (nondet_uchar() & 1);\n  struct PTRef d[3]; d[0] = h_pick(); d[1] = h_pick(); d[2] = h_pick();\n  __CPROVER_assume(g_t[d[0].x].sort == g_t[d[1].x].sort && (n < 3 || g_t[d[2].x].sort == g_t[d[0].x].sort));\n  t_bool want = den_of(d[0].x) == den_of(d[1].x) && (n < 3 || den_of(d[1].x) == den_of(d[2].x));\n  struct vec_PTRef v; v.data = (struct PTRef *)0; v.sz = 0; v.cap = 0; vec_PTRef__capacity__int(&v, 3); for (int k = 0; k < 3; k++) v.data[k] = d[k]; v.sz = n; v.cap = 3;\n  struct PTRef r = Logic__mkEq__vec_PTRef_RR((struct Logic *)0, &v);\n  RES_OK(r); RES_BOOL(r);\n  __CPROVER_assert((den_of(r.x) != 0) == want, "mkEq(args) denotes the chain a1 = a2 (= a3)");\n  OSMT_REACH("return");\n}\n', ('C14_SORTS', 'C14_MAPS', 'C14_SORTCALL'))}
H_DISTINCT = '''void harness(void) { h_setup(); t_int n = nondet_uchar() & 3;
  struct PTRef d[3]; d[0] = h_pick(); d[1] = h_pick(); d[2] = h_pick();
  __CPROVER_assume(g_t[d[0].x].sort == g_t[d[1].x].sort && g_t[d[2].x].sort == g_t[d[0].x].sort);
  t_int e0 = den_of(d[0].x), e1 = den_of(d[1].x), e2 = den_of(d[2].x);
  t_bool want = n < 2 ? 1 : (n == 2 ? e0 != e1 : (e0 != e1 && e0 != e2 && e1 != e2));
  struct vec_PTRef v; v.data = (struct PTRef *)0; v.sz = 0; v.cap = 0; vec_PTRef__capacity__int(&v, 3); for (int k = 0; k < 3; k++) v.data[k] = d[k]; v.sz = n;
  struct PTRef r = Logic__mkDistinct((struct Logic *)0, &v);
  RES_OK(r); RES_BOOL(r);
  __CPROVER_assert((den_of(r.x) != 0) == want, "mkDistinct(args) denotes pairwise difference of its arguments (0 to 3 arguments, repetitions allowed)");
  OSMT_REACH("return");
}
'''
PROVES = {'mkNot': 'mkNot(x) is equivalent to (not x)', 'mkImpl': 'mkImpl(x,y) is equivalent to (=> x y)', 'mkXor': 'mkXor(x,y) is equivalent to (xor x y)', 'mkIte': 'mkIte(c,x,y) is equivalent to (ite c x y)',
          'mkBinaryEq': 'mkBinaryEq(x,y) is equivalent to (= x y)', 'mkAnd': 'mkAnd(args) is equivalent to (and args)', 'mkOr': 'mkOr(args) is equivalent to (or args)', 'mkEq': 'mkEq(args) is equivalent to the chain (= a1 a2 a3)'}
def jobs(tier):
    J = [bjob('mkNot', 'Logic__mkNot__PTRef', H_NOT, proves=PROVES['mkNot'])]
    for nm in ('mkImpl', 'mkXor', 'mkIte', 'mkBinaryEq', 'mkAnd', 'mkOr', 'mkEq'):
        root, h, defs = HARNESS[nm]
        use = {'mkImpl': ('mkOr',), 'mkEq': ('mkAnd', 'mkBinaryEq'), 'mkAnd': ('mkNot',), 'mkOr': ('mkNot',)}.get(nm, ())      # callees replaced by their contracts (each is proved by its own job)
        cn = {'mkNot': 'Logic__mkNot__PTRef', 'mkOr': 'Logic__mkOr__vec_PTRef_RR', 'mkAnd': 'Logic__mkAnd__vec_PTRef_RR', 'mkBinaryEq': 'opensmt::Logic::mkBinaryEq'}
        J.append(bjob(nm, root, h, proves=PROVES[nm], defines=tuple(d for d in defs if not (use and nm not in ('mkAnd', 'mkOr') and d in ('C14_SORTCALL', 'C14_MAPS', 'C14_SORTS'))) + tuple('C14_USE_' + u for u in use) + (('C14_NO_SYMREF',) if nm == 'mkEq' else ()), extra_stubs=tuple(cn[u] for u in use), weight=(30 if nm in ('mkAnd', 'mkOr') else 1)))
    # neg_job() (ArithLogic::mkNeg over an arena with integer denotations, contracts/C14/arith.h) is NOT registered: it does not finish within 30 min
    J.append(bjob('mkDistinct', 'opensmt::Logic::mkDistinct', H_DISTINCT, defines=('C14_SORTS', 'C14_DISTINCT', 'C14_USE_mkEq', 'C14_USE_mkAnd', 'C14_TERMSORT_SORTS'),
                  extra_stubs=('Logic__mkEq__vec_PTRef_RR', 'Logic__mkAnd__vec_PTRef_RR', 'opensmt::PtStore::lookupSymbol', 'opensmt::Logic::isBooleanOperator', 'opensmt::PtStore::hasCplxKey', 'opensmt::PtStore::getFromCplxMap',
                               'opensmt::PtStore::newTerm', 'opensmt::PtStore::addToCplxMap'), proves='mkDistinct(args) is equivalent to (distinct args)'))
    return J + C27.jobs_fold(4)       # constant folding of div / mod against Euclidean semantics (shared with C27, bounded: scaled width)
ARITH_STUBS = ('opensmt::Logic::mkFun', 'opensmt::ArithLogic::mkConst', 'opensmt::ArithLogic::isNeg', 'opensmt::Logic::getSymRef', 'opensmt::Logic::isConstant', 'opensmt::ArithLogic::getNumConst', 'opensmt::Logic::getSortRef',
               'opensmt::ArithLogic::isPlus', 'opensmt::ArithLogic::isTimes', 'opensmt::Logic::getPterm', 'opensmt::ArithLogic::getMinusOneForSort', 'opensmt::ArithLogic::isNumVarLike', 'opensmt::ArithLogic::getTimesForSort',
               'opensmt::Pterm::size', 'opensmt::Pterm::operator[]', 'opensmt::Pterm::begin', 'opensmt::Pterm::end', 'opensmt::ArithLogic::yieldsSortInt', 'opensmt::ArithLogic::yieldsSortReal', 'opensmt::ArithLogic::getTerm_IntOne',
               'opensmt::ArithLogic::getTerm_RealOne', 'vec_PTRef__capacity__int')
H_NEG = '''void harness(void) {
  h_init();
  t_int c = nondet_int(), dx = nondet_int(), dy = nondet_int(), du = nondet_int();
  __CPROVER_assume(c >= -3 && c <= 3 && dx >= -3 && dx <= 3 && dy >= -3 && dy <= 3 && du >= -3 && du <= 3);
  struct PTRef k = h_const(c), x = h_leaf(K_VAR, dx), y = h_leaf(K_VAR, dy), u = h_leaf(K_UF, du);
  struct PTRef cx = (c != 0 && c != 1) ? (nondet_bool() ? h_app(K_TIMES, 2, k.x, x.x, 0) : h_app(K_TIMES, 2, x.x, k.x, 0)) : x;     /* c*x in either argument order (0*x and 1*x are not normal forms) */
  struct PTRef my = h_app(K_TIMES, 2, T_MINUS1, y.x, 0);
  struct PTRef s2 = h_app(K_PLUS, 2, x.x, y.x, 0), s3 = h_app(K_PLUS, 3, x.x, u.x, k.x);      /* sums over leaves (the recursion of mkNeg is then at most two deep) */
  t_u32 pool = (t_u32)g_nt;
  struct PTRef t; t.x = nondet_uchar(); __CPROVER_assume(t.x < pool);
  struct PTRef r = ArithLogic__mkNeg((struct ArithLogic *)0, t);
  __CPROVER_assert(!__osmt_thrown, "every term shape of the normal form is negated");
  __CPROVER_assert(r.x < (t_u32)g_nt, "the result is a term of the store");
  __CPROVER_assert(den_of(r.x) == -den_of(t.x), "mkNeg(t) denotes -t");
  OSMT_REACH("return");
}
'''
def neg_job():
    import checks.C15 as C15
    return Job('mkNeg.R', 'src/logics/ArithLogic.cc', 'opensmt::ArithLogic::mkNeg', tier='R', header='contracts/C14/arith.h', harness=H_NEG, enforce=False, aux_tu=C15.TU, pre_includes=('stubs/gmp_types.h', 'stubs/std_types.h'),
               stubs=C15.POOL_STUBS + ARITH_STUBS, opaque=('opensmt::ArithLogic', 'opensmt::Logic', 'opensmt::Pterm'), unwindset=('Logic__mkFun.2:18', 'h_const.0:18'), default_unwind=4, min_obligations=5, object_bits=12, timeout=1800, weight=20,
               expected_wrap=C15.WRAP, proves='mkNeg(t) is equivalent to (- t) for constants, variables, constant*variable and sums')
def info(tier, results):
    return {'level': 'proof', 'trusted_base': ['clang 14 AST', 'osmt2c lowering', 'CBMC 6.11'],
            'assumptions': ['Logic::mkFun returns the hash-consed application term, whose denotation is the operator applied to the denotations of its arguments (stub contract; it is the one place a term is really built)',
                            'the Logic / Pterm queries (hasSortBool, isNot, isTrue, isFalse, isConstant, getSortRef, getPterm, sortToIte, sortToEquality) answer as the arena says; different constants denote different values',
                            'std::sort and Logic::termSort return some permutation (the equivalence obligation does not depend on which one)',
                            'vec<T> storage behaves as the typed pool stubs (capacity keeps contents); at most 3 arguments per application (arena bound)',
                            'in mkImpl and mkEq the callees mkOr / mkAnd / mkBinaryEq are replaced by their contracts, which their own jobs discharge'],
            'explanation': 'Each Boolean constructor is lowered from Logic.cc and run over a term arena with an arbitrary interpretation (ghost denotation per term): the obligation is denotation(result) == operator(denotations of arguments), for every argument choice from a pool that contains true, false, atoms, negations, a conjunction and its negation, variables and distinct constants of an uninterpreted sort. Real width; loops closed by unwinding with the arena bound (3 arguments), unwinding assertions on. The div/mod folding jobs are shared with C27 (scaled width, bounded).'}
