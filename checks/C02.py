"""C02 -- A sat answer is never given for an unsatisfiable set (partial: numeric constants are handled exactly whatever their magnitude)."""
import os, re
from vrun import Job, VERIF
import checks.C15 as C15, checks.C27 as C27
STP = os.path.join(VERIF, 'shims/stp_numbers.cc')
def jobs(tier):
    J = [Job('IDL_getValue.R', STP, 'Converter_SafeInt__getValue__Number_R', tier='R', header='contracts/C02/getvalue.h', replace=C15.GCDS,
             stubs=C15.POOL_STUBS + ('opensmt::FastRational::getMpq',), expected_wrap=C15.WRAP, min_obligations=5,
             proves='the constant of an integer difference constraint is converted exactly, or reported as not fitting')]
    J += [j for j in C27.jobs_stp() if re.search(r'SafeInt_(plus|minuseq|minus|neg)|IDL_', j.name)]
    return J
def info(tier, results):
    return {'level': 'proof', 'trusted_base': ['clang 14 AST', 'osmt2c lowering', 'CBMC 6.11 dfcc'],
            'assumptions': ['FastRational::getMpq / mpq_class::get_num / mpz_class::fits_slong_p / get_si behave as the stubs of contracts/C02/getvalue.h (exact GMP semantics over ghost value identities)'], 'explanation': ''}
