"""C02 -- A sat answer is never given for an unsatisfiable set (partial: numeric constants are handled exactly whatever their magnitude)."""
import os, re
from vrun import Job, VERIF
import checks.C15 as C15, checks.C27 as C27
STP = os.path.join(VERIF, 'shims/stp_numbers.cc')
def jobs(tier):
    J = [Job('IDL_getValue.R', STP, 'Converter_SafeInt__getValue__Number_R', tier='R', header='contracts/C02/getvalue.h', replace=C15.GCDS,
             stubs=C15.POOL_STUBS + ('opensmt::FastRational::getMpq',), expected_wrap=C15.WRAP, min_obligations=5,
             proves='the constant of an integer difference constraint is converted exactly, or reported as not fitting')]
    J += [j for j in C27.jobs_stp() if re.search(r'SafeInt_(plus|minuseq|minus|neg)|IDL_', j.name)]
    return J + jobs_lia() + [lia_unb_job()]
LIA_STUBS = ('opensmt::LASolver::isModelInteger', 'opensmt::LASolver::shouldTryCutFromProof', 'opensmt::LASolver::cutFromProof', 'opensmt::LASolver::splitOnRandom', 'opensmt::LASolver::getVarPTRef',
             'opensmt::LASolver::setStatus', 'opensmt::Simplex::hasLBound', 'opensmt::Simplex::hasUBound', 'opensmt::Simplex::Ub', 'opensmt::Simplex::Lb', 'opensmt::Simplex::getValuation',
             'opensmt::ArithLogic::mkLeq', 'opensmt::ArithLogic::mkGeq', 'opensmt::ArithLogic::mkIntConst', 'opensmt::Logic::mkOr', 'vec_LVRef__capacity__int', 'vec_PTRef__push__PTRef_R')
H_LIA = '''void harness(void) {
  struct LVRef vars[NV]; for (int k = 0; k < NV; k++) { vars[k].x = (t_u32)k; h_integral[k] = nondet_bool(); g_asked[k] = 0; }
  t_int n; __CPROVER_assume(n >= 0 && n <= NV);
  g_opaque_LASolver_int_vars.data = vars; g_opaque_LASolver_int_vars.sz = n; g_opaque_LASolver_int_vars.cap = NV;
  /* the (non-integral) Simplex value of whichever variable is chosen for branching: any canonical word rational with den > 1 */
  s_make(&h_delta.r); __CPROVER_assume(FR_WORD(&h_delta.r) && h_delta.r.den > 1);
  h_delta.d.state = 1; h_delta.d.num = 0; h_delta.d.den = 1; h_delta.d.mpq = (mpq_ptr)0;
  wide vn = VN(&h_delta.r), vd = VD(&h_delta.r);
  h_cut = nondet_bool() ? E_TRes_UNKNOWN : E_TRes_UNSAT;
  g_status = -1; g_split = 0; g_pushed = 0; g_nc = 0;
  t_int r = LASolver__checkIntegersAndSplit((struct LASolver *)0);
  __CPROVER_assume(!g_gmp_arith);
  t_bool allint = 1; for (int k = 0; k < NV; k++) if (k < n && !h_integral[k]) allint = 0;
  for (int k = 0; k < NV; k++) if (k < n) __CPROVER_assert(g_asked[k] >= 1, "every integer variable is examined");
  __CPROVER_assert(allint == (g_status == E_LASolver___anon_SAT), "the complete LIA check ends in status SAT exactly when every integer variable has an integral value");
  if (allint) __CPROVER_assert(r == E_TRes_SAT && !g_split && g_pushed == 0, "an integral model is reported as SAT without branching");
  else __CPROVER_assert((r == h_cut && r != E_TRes_UNKNOWN && g_pushed == 0) || (r == E_TRes_SAT && g_status == E_LASolver___anon_NEWSPLIT && g_split && g_pushed == 1),
                        "a non-integral model leads to a cut verdict or to exactly one recorded branch, never to a plain SAT");
  if (g_pushed == 1) {
    __CPROVER_assert(g_nc == 2 && g_leq_c == 10 && g_geq_c == 11, "the branches are x <= c1 and x >= c2 with the two constants in this order");
    __CPROVER_assert(g_c[0] * vd <= vn && vn < (g_c[0] + 1) * vd, "c1 is the floor of the variable's value");
    __CPROVER_assert(g_c[1] == g_c[0] + 1, "c2 == c1 + 1: no integer is lost between the branches");
  }
  OSMT_REACH("return");
}
'''
def jobs_lia():
    W = 4
    return [Job('checkIntegersAndSplit.N3', 'src/tsolvers/lasolver/LASolver.cc', 'opensmt::LASolver::checkIntegersAndSplit', tier='S', width=W, header='contracts/C02/lia.h', harness=H_LIA,
                enforce=False, aux_tu=C15.TU, stubs=C15.POOL_STUBS + LIA_STUBS, opaque=('opensmt::LASolver', 'opensmt::TSolver', 'opensmt::Simplex', 'opensmt::ArithLogic', 'opensmt::Logic'),
                defines=('OSMT_GMP_EXACT', 'OSMT_CHECK_WF_ASSERTS'), unwindset=C15.S_UNWIND(W) + ('sp_coprime.0:56',), default_unwind=8, min_obligations=5, timeout=1200, object_bits=12,
                expected_wrap=(('absVal__word', 'type conversion'), ('absVal__lword', 'type conversion'), ('absVal__word', 'unary minus'), ('absVal__lword', 'unary minus')),
                bounded_note='at most 3 integer variables (every subset integral / non-integral); FastRational code of the split at word width 4',
                proves='SAT from the complete LIA check implies an integral value for every integer variable')]

H_LIA_UNB = '''void harness(void) {
  h_n = nondet_int(); __CPROVER_assume(h_n >= 0 && h_n <= MAXV);
  g_k = nondet_int(); __CPROVER_assume(g_k >= 0 && g_k < h_n);
  __CPROVER_havoc_object(h_vars);
  h_cellvar = nondet_u32(); __CPROVER_assume(h_cellvar < (t_u32)OSMT_LIM_INT32_MAX); h_cell_integral = nondet_bool(); if (h_n > 0) h_vars[g_k].x = h_cellvar;
  g_opaque_LASolver_int_vars.data = h_vars; g_opaque_LASolver_int_vars.sz = h_n; g_opaque_LASolver_int_vars.cap = MAXV;
  h_cut = nondet_bool() ? E_TRes_UNKNOWN : E_TRes_UNSAT; g_any_nonint = 0; g_cell_asked = 0; g_status = -1; g_splits = 0; __osmt_thrown = 0;
  t_int r = LASolver__checkIntegersAndSplit((struct LASolver *)0);
  if (h_n > 0) __CPROVER_assert(g_cell_asked, "an arbitrary integer variable is examined, for any number of integer variables");
  __CPROVER_assert((g_status == E_LASolver___anon_SAT) == !g_any_nonint, "the complete LIA check ends in status SAT exactly when no examined variable has a non-integral value");
  if (h_n > 0 && !h_cell_integral) __CPROVER_assert(g_status != E_LASolver___anon_SAT, "a non-integral value of an arbitrary integer variable rules out status SAT");
  if (g_any_nonint) __CPROVER_assert((r == h_cut && r != E_TRes_UNKNOWN && !g_splits) || (r == E_TRes_SAT && g_status == E_LASolver___anon_NEWSPLIT && g_splits), "a non-integral model leads to a cut verdict or to a recorded branch, never to a plain SAT");
  OSMT_REACH("return");
}
'''
def lia_unb_job():
    return Job('checkIntegersAndSplit.unbounded.R', 'src/tsolvers/lasolver/LASolver.cc', 'opensmt::LASolver::checkIntegersAndSplit', tier='R', header='contracts/C02/lia_unb.h', harness=H_LIA_UNB, enforce=False, loop_contracts=True,
               pre_includes=('stubs/gmp_types.h', 'stubs/std_types.h'),
               stubs=LIA_STUBS + ('opensmt::FastRational::floor', 'FastRational__op_plus', 'FastRational__ctor__word', 'vec_LVRef__push__LVRef_R'), opaque=('opensmt::LASolver', 'opensmt::TSolver', 'opensmt::Simplex', 'opensmt::ArithLogic', 'opensmt::Logic'),
               min_obligations=5, timeout=900, object_bits=12, bounded_note='loop contract over the integer variables; the variable vector is a real array with a capacity of 1024 entries (any contents, one symbolic cell)',
               proves='for any number of integer variables up to the capacity of 1024: status SAT exactly when every integer variable has an integral value')
def info(tier, results):
    return {'level': 'proof', 'trusted_base': ['clang 14 AST', 'osmt2c lowering', 'CBMC 6.11 dfcc'],
            'assumptions': ['FastRational::getMpq / mpq_class::get_num / mpz_class::fits_slong_p / get_si behave as the stubs of contracts/C02/getvalue.h (exact GMP semantics over ghost value identities)'], 'explanation': ''}
