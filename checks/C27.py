"""C27 -- Integer rounding is exact for every integer input."""
import os, re
from vrun import Job, VERIF
import checks.C15 as C15

STP = os.path.join(VERIF, 'shims/stp_numbers.cc')

def R(name, root, **kw):
    kw.setdefault('replace', C15.GCDS); kw.setdefault('stubs', C15.POOL_STUBS); kw.setdefault('expected_wrap', C15.WRAP)
    kw.setdefault('min_obligations', 2)
    return Job(name + '.R', STP, root, tier='R', header='contracts/C27/stp_R.h', **kw)

def jobs_stp():
    J = []
    for nm, c in (('SafeInt_plus', 'SafeInt__op_plus'), ('SafeInt_minuseq', 'SafeInt__op_minuseq'), ('SafeInt_minus', 'SafeInt__op_minus__SafeInt'),
                  ('SafeInt_neg', 'SafeInt__op_minus__void'), ('IDL_negate', 'Converter_SafeInt__negate'), ('IDL_getValue_ptrdiff', 'Converter_SafeInt__getValue__ptrdiff_t'),
                  ('RDL_negate', 'Converter_Delta__negate')):
        J.append(R(nm, c))
    return J

def jobs_bounds(W):
    h = '''void harness(void) { S_OPERAND(c) __CPROVER_assume(FR_WORD(&c)); t_bool strict = nondet_bool();
  struct LABoundStore__BoundValuePair r = LASolver__getBoundsValueForIntVar((struct LASolver *)0, &c, strict);
  __CPROVER_assume(!g_gmp_arith);   /* results of the word path; the GMP fall-back is covered by the provenance contracts of C15 */
  s_check(&r.upper.r, "ub"); s_check(&r.lower.r, "lb"); S_SAME(&c, cn, cd);
  __CPROVER_assert(VN(&r.upper.d) == 0 && VN(&r.lower.d) == 0, "integer bounds carry no infinitesimal part");
  __CPROVER_assert(VD(&r.upper.r) == 1 && VD(&r.lower.r) == 1, "integer bounds are integers");
  wide ub = VN(&r.upper.r), lb = VN(&r.lower.r);
  wide v = nondet_wide(); __CPROVER_assume(v >= -((wide)1 << (OSMT_W + 3)) && v <= ((wide)1 << (OSMT_W + 3)));   /* ghost: an arbitrary integer value of the variable */
  if (strict) {
    __CPROVER_assert((v * cd < cn) == (v <= ub), "strict: v < c  <=>  v <= upper bound, for every integer v");
    __CPROVER_assert((!(v * cd < cn)) == (v >= lb), "strict: not(v < c)  <=>  v >= lower bound, for every integer v");
  } else {
    __CPROVER_assert((v * cd <= cn) == (v <= ub), "non-strict: v <= c  <=>  v <= upper bound, for every integer v");
    __CPROVER_assert((!(v * cd <= cn)) == (v >= lb), "non-strict: not(v <= c)  <=>  v >= lower bound, for every integer v");
  }
  OSMT_REACH("return");
}\n'''
    return [Job('getBoundsValueForIntVar.S%d' % W, 'src/tsolvers/lasolver/LASolver.cc', 'opensmt::LASolver::getBoundsValueForIntVar', tier='S', width=W,
                header='contracts/C15/fr_S.h', harness=h, enforce=False, aux_tu=C15.TU, stubs=C15.POOL_STUBS, opaque=('opensmt::LASolver',),
                defines=('OSMT_GMP_EXACT', 'OSMT_CHECK_WF_ASSERTS'), unwindset=C15.S_UNWIND(W), min_obligations=5, timeout=900,
                expected_wrap=(('absVal__word', 'type conversion'), ('absVal__lword', 'type conversion'), ('absVal__word', 'unary minus'), ('absVal__lword', 'unary minus')),
                bounded_note='exhaustive over all canonical word constants c and all integers |v| <= 2^%d at word width %d' % (W + 3, W),
                proves='bound tightening for integer variables: v<c / v<=c and their negations against floor/ceil')]

LOGIC_STUBS = ('opensmt::ArithLogic::checkSortInt', 'opensmt::ArithLogic::mkIntConst', 'opensmt::Logic::mkFun', 'opensmt::ArithLogic::mkNeg', 'opensmt::ArithLogic::getNumConst',
               'opensmt::ArithLogic::isNumConst', 'opensmt::Logic::isConstant', 'opensmt::ArithLogic::isZero', 'opensmt::ArithLogic::isOne', 'opensmt::ArithLogic::isMinusOne',
               'opensmt::ArithLogic::getTerm_IntZero', 'vec_PTRef__ctor__std_initializer_list_PTRef_R')
def jobs_fold(W):
    J = []
    for nm, root, post in (
        ('mkMod', 'ArithLogic__mkMod__vec_PTRef_RR',
         '__CPROVER_assert(g_res_set && g_res_is_int, "mod folds to an integer constant"); m = g_res; q = (a - m) / d; __CPROVER_assert((a - m) % d == 0, "a - (mod a d) is a multiple of d");'),
        ('mkIntDiv', 'ArithLogic__mkIntDiv__vec_PTRef_RR',
         'if (g_res_set) { __CPROVER_assert(g_res_is_int, "div folds to an integer constant"); q = g_res; } else { __CPROVER_assert(r.x == 0 && d == 1, "the dividend itself is returned only for divisor 1"); q = a; } m = a - q * d;')):
        h = 'ARITH_HARNESS(%s, %s)\n' % (root, post)
        J.append(Job('%s.S%d' % (nm, W), 'src/logics/ArithLogic.cc', root, tier='S', width=W, header='contracts/C27/arith_S.h', harness=h, enforce=False,
                     aux_tu=C15.TU, stubs=C15.POOL_STUBS + LOGIC_STUBS, opaque=('opensmt::ArithLogic', 'opensmt::Logic'),
                     defines=('OSMT_GMP_EXACT', 'OSMT_CHECK_WF_ASSERTS'), unwindset=C15.S_UNWIND(W), min_obligations=5, timeout=1200,
                     expected_wrap=(('absVal__word', 'type conversion'), ('absVal__lword', 'type conversion'), ('absVal__word', 'unary minus'), ('absVal__lword', 'unary minus')),
                     bounded_note='exhaustive over all pairs of integer constants at word width %d' % W,
                     proves='constant folding of div/mod is SMT-LIB Euclidean for either divisor sign; division by zero rejected'))
    return J

# the FastRational rounding functions are shared with C15 (same contracts, same jobs)
SHARED = r'^(ceil|floor|fastrat_fdiv_q|fastrat_round_to_int|divexact|gcd|lcm|isInteger)\.'

def jobs(tier):
    J = jobs_stp() + jobs_fold(4) + jobs_bounds(4) + (jobs_bounds(5) if tier == 'thorough' else [])
    J += [j for j in C15.jobs(tier) if re.search(SHARED, j.name)]
    return J

def info(tier, results):
    return {'level': 'proof', 'trusted_base': ['clang 14 AST', 'osmt2c lowering', 'CBMC 6.11 (goto-cc, goto-instrument --dfcc, MiniSat)'],
            'assumptions': ['GMP functions behave as the stub contracts say'], 'explanation': ''}

def replay(r, o):
    return C15.replay(r, o) if r['root'].startswith(('FastRational', 'opensmt::', 'fastrat', 'divexact', 'gcd', 'lcm')) and 'LASolver' not in r['root'] and 'ArithLogic' not in r['root'] and 'SafeInt' not in r['root'] and 'Converter' not in r['root'] else None
