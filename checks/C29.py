"""C29 -- Input outside the declared logic is rejected, never answered wrongly (partial: difference-logic atom shape)."""
import os
from vrun import Job, VERIF
import checks.C15 as C15
STP = os.path.join(VERIF, 'shims/stp_numbers.cc')
STUBS = ('Converter_%s__getValue__Number_R', 'Pterm__op_index', 'Pterm__size', 'ArithLogic__isNumConst__PTRef', 'ArithLogic__isPlus__PTRef', 'ArithLogic__isTimes__PTRef',
         'ArithLogic__isLeq__PTRef', 'ArithLogic__isNumVar__PTRef', 'Logic__getPterm__PTRef', 'ArithLogic__getNumConst', 'Logic__pp')
H = '''void harness(void) {
  /* node 1: (<= c rhs); node 2: c; node 3: rhs; summands 4..6 with children 7..12 */
  g_arena[0].kind = 99; g_arena[0].nargs = 0;
  g_arena[1].kind = K_LEQ; g_arena[1].nargs = 2; g_arena[1].args[0] = 2; g_arena[1].args[1] = 3; mk_const(2);
  t_uchar shape = nondet_uchar(); __CPROVER_assume(shape <= 2);
  t_int ns = 0;
  if (shape == 0) mk_var(3);
  else if (shape == 1) { g_arena[3].kind = K_TIMES; g_arena[3].nargs = 2; g_arena[3].args[0] = 7; g_arena[3].args[1] = 8; mk_const(7); mk_var(8); }
  else { ns = nondet_bool() ? 2 : 3; g_arena[3].kind = K_PLUS; g_arena[3].nargs = ns; g_arena[3].args[0] = 4; g_arena[3].args[1] = 5; g_arena[3].args[2] = 6;
         mk_summand(4, 7, 8); mk_summand(5, 9, 10); mk_summand(6, 11, 12); }
  /* is the atom in difference logic?  c <= x | c <= -1*y | c <= x + -1*y (either order) */
  t_bool dl = 0; t_u32 ex = g_PTRef_Undef.x, ey = g_PTRef_Undef.x;
  if (shape == 0) { dl = 1; ex = 3; }
  else if (shape == 1) { if (is_neg_var(3)) { dl = 1; ey = g_arena[3].args[1]; } }
  else if (ns == 2) {
    if (g_arena[4].kind == K_VAR && is_neg_var(5)) { dl = 1; ex = 4; ey = g_arena[5].args[1]; }
    if (g_arena[5].kind == K_VAR && is_neg_var(4)) { dl = 1; ex = 5; ey = g_arena[4].args[1]; }
  }
  struct PTRef ref; ref.x = 1; __osmt_thrown = 0;
  struct %(PP)s r = %(FN)s((struct %(ST)s *)0, ref);
  if (dl) {
    __CPROVER_assert(__osmt_thrown == 0, "an atom of difference logic is accepted");
    __CPROVER_assert(r.x.x == ex && r.y.x == ey, "the atom is read as y - x <= c with exactly its two variables");
  } else {
    __CPROVER_assert(__osmt_thrown != 0, "an atom outside difference logic (sum of two positive variables, coefficient other than -1, three summands, ...) is rejected, not read as some difference constraint");
  }
  OSMT_REACH("return");
}
'''
def jobs(tier):
    J = []
    for T in ('SafeInt', 'Delta'):
        h = H % {'PP': 'STPSolver_%s___ParsedPTRef' % T, 'FN': 'STPSolver_%s__parseRef' % T, 'ST': 'STPSolver_%s' % T}
        if T == 'Delta': h = h.replace('struct SafeInt Converter_SafeInt', 'struct Delta Converter_Delta')
        J.append(Job('parseRef_%s.R' % T, STP, 'STPSolver_%s__parseRef' % T, tier='R', header='contracts/C29/parse_%s.h' % T, harness=h, enforce=False,
                     stubs=C15.POOL_STUBS + tuple(s % T if '%s' in s else s for s in STUBS), aux_tu=C15.TU,
                     opaque=('opensmt::STPSolver<opensmt::%s>' % T, 'opensmt::ArithLogic', 'opensmt::Logic', 'opensmt::Pterm'),
                     unwindset=('gcd__uint_uint.0:3',), default_unwind=3, expected_wrap=C15.WRAP, min_obligations=10, timeout=900,
                     proves='difference-logic atoms are parsed into the right variables; every other linear atom is rejected; no term is indexed past its size'))
    return J + jobs_numterm()
H_NUMTERM = '''void harness(void) {
  /* node 1 is the term; nodes 2..4 are its (up to three) arguments: leaves of arbitrary kind */
  g_arena[0].kind = 99; g_arena[0].nargs = 0;
  for (int k = 2; k <= 4; k++) { t_uchar kd = nondet_uchar(); __CPROVER_assume(kd == K_VAR || kd == K_CONST || kd == K_UF); g_arena[k].kind = kd; g_arena[k].nargs = (kd == K_UF) ? 1 : 0; g_arena[k].args[0] = 5; }
  g_arena[5].kind = K_VAR; g_arena[5].nargs = 0;
  t_uchar kd = nondet_uchar(); __CPROVER_assume(kd == K_VAR || kd == K_CONST || kd == K_UF || kd == K_TIMES || kd == K_PLUS);
  t_int na = (kd == K_VAR || kd == K_CONST) ? 0 : (kd == K_UF ? 1 : (nondet_bool() ? 2 : 3));
  g_arena[1].kind = kd; g_arena[1].nargs = na; g_arena[1].args[0] = 2; g_arena[1].args[1] = 3; g_arena[1].args[2] = 4;
  struct PTRef tr; tr.x = 1;
  t_bool r = ArithLogic__isNumTerm((struct ArithLogic *)0, tr);
  t_bool vl2 = g_arena[2].kind != K_CONST, vl3 = g_arena[3].kind != K_CONST;
  t_bool linear = (kd == K_VAR || kd == K_UF || kd == K_CONST) || (kd == K_TIMES && na == 2 && ((vl2 && !vl3) || (vl3 && !vl2)));
  __CPROVER_assert(r == linear, "isNumTerm(t) <=> t is a variable-like term, a constant, or constant * variable-like with exactly two factors");
  OSMT_REACH("return");
}
'''
def jobs_numterm():
    return [Job('isNumTerm.R', 'src/logics/ArithLogic.cc', 'opensmt::ArithLogic::isNumTerm', tier='R', header='contracts/C29/numterm.h', harness=H_NUMTERM, enforce=False, pre_includes=(),
                stubs=('Pterm__op_index', 'Pterm__size', 'ArithLogic__isNumVarLike__PTRef', 'Logic__isConstant__PTRef', 'ArithLogic__isTimes__PTRef', 'ArithLogic__isNumVar__PTRef',
                       'Logic__getPterm__PTRef', 'Logic__getPterm__PTRef_65755a', 'ArithLogic__yieldsSortInt__PTRef', 'ArithLogic__yieldsSortReal__PTRef', 'ArithLogic__getTerm_IntOne', 'ArithLogic__getTerm_RealOne'),
                opaque=('opensmt::ArithLogic', 'opensmt::Logic', 'opensmt::Pterm'), default_unwind=5, min_obligations=3,
                proves='the linearity test accepts exactly variables, constants and constant*variable with two factors (products of three or more factors are non-linear)')]

def info(tier, results):
    return {'level': 'proof', 'trusted_base': ['clang 14 AST', 'osmt2c lowering', 'CBMC 6.11'],
            'assumptions': ['the Logic / Pterm API behaves as the arena stubs (contracts/C29/parse.h)', 'atoms handed to declareAtom are in ArithLogic normal form: constant on the left; on the right a variable, constant*variable, or a sum of 2..3 such summands'], 'explanation': ''}
