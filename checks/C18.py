"""C18 -- The executable never crashes ... (partial: byte-level input code).  Shares the interpPipe job with C20."""
import checks.C20 as C20
def jobs(tier):
    return C20.jobs(tier)
def info(tier, results):
    return C20.info(tier, results)
