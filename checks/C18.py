"""C18 -- The executable never crashes ... (partial: byte-level input code).  Shares the interpPipe job with C20 and the literal
conversion jobs with C16 (their bounds, pointer and overflow obligations are the C18 content)."""
import checks.C20 as C20, checks.C16 as C16, checks.C27 as C27
def jobs(tier):
    # division by zero in constant div/mod is signalled with ArithDivisionByZeroException (obligation of the folding jobs)
    return C20.jobs(tier) + C27.jobs_fold(4) + [j for j in C16.jobs(tier) if not j.name.startswith(('stringToRational.decimal', 'stringToRational.fraction'))]
def info(tier, results):
    return C20.info(tier, results)

def replay(r, o):
    if r['job'].startswith('interpPipe'): return C20.replay(r, o)
    if r['job'].startswith(('isIntString', 'isRealString', 'stringToRational')): return C16.replay(r, o)
    return None
