"""C15 -- Rational arithmetic is exact in both representations (opensmt::FastRational)."""
import os, re, json
from vrun import Job, VERIF

TU = 'src/common/numbers/FastRational.cc'
POOL_STUBS = ('opensmt::FastRational::mpqPool::alloc', 'opensmt::FastRational::mpqPool::release')
GCDS = ('gcd__uint_uint', 'gcd__ulong_ulong', 'gcd__int_int')
WRAP = (('absVal__word', 'type conversion in (t_uword)x'), ('absVal__lword', 'type conversion in (t_ulword)x'),
        ('absVal__word', 'unary minus'), ('absVal__lword', 'unary minus'),
        # lword common = gcd(absVal(n), d): wraps only when n == 0 and d >= 2^63; the wrapped value then fails `common > 1`
        # and CHECK_UWORD(zd, d) sends the computation to GMP -- checked for value-exactness in the S tier
        ('additionAssign', '(t_lword)return_value_gcd__ulong_ulong'))

def R(name, root, **kw):
    kw.setdefault('replace', GCDS); kw.setdefault('stubs', POOL_STUBS); kw.setdefault('expected_wrap', WRAP)
    kw.setdefault('min_obligations', 5)
    return Job(name + '.R', TU, root, tier='R', header='contracts/C15/fr_R.h', **kw)

def jobs_R():
    J = []
    for f in ('addition', 'subtraction', 'multiplication', 'division', 'additionAssign', 'subtractionAssign', 'multiplicationAssign', 'divisionAssign'):
        J.append(R(f, 'opensmt::' + f, weight=10, proves='UB-freedom, typestate of the GMP path, frame, operands unchanged, canonical word representation, exact value on the integer-denominator paths'))
    for f, c in (('operator_neg', 'FastRational__op_minus__void'), ('inverse', 'FastRational__inverse'), ('ceil', 'FastRational__ceil'), ('floor', 'FastRational__floor'),
                 ('get_num', 'FastRational__get_num'), ('get_den', 'FastRational__get_den'), ('negate', 'FastRational__negate'), ('sign', 'FastRational__sign'),
                 ('isInteger', 'FastRational__isInteger'), ('isZero', 'FastRational__isZero'), ('isOne', 'FastRational__isOne'),
                 ('compare', 'FastRational__compare__FastRational_R'), ('operator_eq', 'FastRational__op_eq'),
                 ('ctor_word_uword', 'FastRational__ctor__word_uword'), ('ctor_uint32', 'FastRational__ctor__uint32_t'),
                 ('ctor_copy', 'FastRational__ctor__FastRational_R'), ('assign_copy', 'FastRational__op_assign__FastRational_R'),
                 ('operator_plus', 'FastRational__op_plus'), ('operator_minus', 'FastRational__op_minus__FastRational_R'), ('operator_mul', 'FastRational__op_mul'), ('operator_div', 'FastRational__op_div'),
                 ('fastrat_fdiv_q', 'fastrat_fdiv_q'), ('divexact', 'divexact'),
                 ('gcd', 'gcd__FastRational_R_FastRational_R'), ('lcm', 'lcm__FastRational_R_FastRational_R'), ('abs', 'abs'),
                 ('ctor_mpz', 'FastRational__ctor____mpz_struct_P'), ('ctor_move', 'FastRational__ctor__FastRational_RR'), ('assign_move', 'FastRational__op_assign__FastRational_RR'),
                 ('try_fit_word', 'FastRational__try_fit_word'), ('ensure_mpq_valid', 'FastRational__ensure_mpq_valid'), ('kill_mpq', 'FastRational__kill_mpq'),
                 ('absVal_word', 'absVal__word'), ('absVal_lword', 'absVal__lword'), ('compare_lword', 'FastRational__compare__lword_lword')):
        J.append(R(f, c))
    return J


# ------------------------------------------------------------------------------------------------- S tier
S_UNWIND = lambda W: ('sp_gcd.0:%d' % (4 * W + 12), 'gcd__uint_uint.0:%d' % (2 * W + 4), 'gcd__ulong_ulong.0:%d' % (4 * W + 4), 'gcd__int_int.0:%d' % (2 * W + 4))
BIN = {'addition': ('an*bd + bn*ad', 'ad*bd', ''), 'subtraction': ('an*bd - bn*ad', 'ad*bd', ''),
       'multiplication': ('an*bn', 'ad*bd', ''), 'division': ('an*bd', 'ad*bn', '__CPROVER_assume(bn != 0);')}
def h_bin(fn, alias):
    n, d, pre = BIN[fn]
    if alias: n = n.replace('bn', 'an').replace('bd', 'ad'); d = d.replace('bn', 'an').replace('bd', 'ad'); pre = pre.replace('bn', 'an')
    b = 'a' if alias else 'b'
    pre += ' __CPROVER_assume(FR_WORD(&a)%s);' % ('' if alias else ' && FR_WORD(&b)')
    return '''void harness(void) { S_OPERAND(a) %s S_OPERAND(dst) %s
  %s(&dst, &a, &%s);
  /* the GMP fall-back is decided at real width by provenance (fr_R.h); here: every result the word path produces */
  __CPROVER_assume(!g_gmp_arith);
  s_check(&dst, "dst"); s_check(&a, "a"); %s
  S_SAME(&a, an, ad); %s
  S_EXACT(&dst, %s, %s);
  OSMT_REACH("return");
}\n''' % ('' if alias else 'S_OPERAND(b)', pre, fn, b, '' if alias else 's_check(&b, "b");', '' if alias else 'S_SAME(&b, bn, bd);', n, d)
def h_assign(fn, alias):
    n, d, pre = BIN[fn.replace('Assign', '')]
    if alias: n = n.replace('bn', 'an').replace('bd', 'ad'); d = d.replace('bn', 'an').replace('bd', 'ad'); pre = pre.replace('bn', 'an')
    pre += ' __CPROVER_assume(FR_WORD(&a)%s);' % ('' if alias else ' && FR_WORD(&b)')
    return '''void harness(void) { S_OPERAND(a) %s %s
  %s(&a, &%s);
  __CPROVER_assume(!g_gmp_arith);
  s_check(&a, "a"); %s
  S_EXACT(&a, %s, %s);
  OSMT_REACH("return");
}\n''' % ('' if alias else 'S_OPERAND(b)', pre, fn, 'a' if alias else 'b', '' if alias else 's_check(&b, "b"); S_SAME(&b, bn, bd);', n, d)
UNARY = {
 'FastRational__op_minus__void': ('struct FastRational r = F(&a);', 's_check(&r, "r"); S_EXACT(&r, -an, ad);', ''),
 'FastRational__inverse': ('struct FastRational r = F(&a);', 's_check(&r, "r"); S_EXACT(&r, ad, an);', '__CPROVER_assume(an != 0);'),
 'FastRational__ceil': ('struct FastRational r = F(&a);', 's_check(&r, "r"); __CPROVER_assert(VD(&r) == 1, "value: ceil is an integer"); __CPROVER_assert((VN(&r) - 1) * ad < an && an <= VN(&r) * ad, "value: ceil-1 < x <= ceil");', ''),
 'FastRational__floor': ('struct FastRational r = F(&a);', 's_check(&r, "r"); __CPROVER_assert(VD(&r) == 1, "value: floor is an integer"); __CPROVER_assert(VN(&r) * ad <= an && an < (VN(&r) + 1) * ad, "value: floor <= x < floor+1");', ''),
 'FastRational__get_num': ('struct FastRational r = F(&a);', 's_check(&r, "r"); S_EXACT(&r, an, (wide)1);', ''),
 'FastRational__get_den': ('struct FastRational r = F(&a);', 's_check(&r, "r"); S_EXACT(&r, ad, (wide)1);', ''),
 'abs': ('struct FastRational r = F(&a);', 's_check(&r, "r"); S_EXACT(&r, sp_abs(an), ad);', ''),
 'FastRational__negate': ('F(&a);', '__CPROVER_assert(VN(&a) == -an && VD(&a) == ad, "value: negate");', None),
 'FastRational__sign': ('t_int r = F(&a);', '__CPROVER_assert(r == (an > 0) - (an < 0), "value: sign");', ''),
 'FastRational__isInteger': ('t_bool r = F(&a);', '__CPROVER_assert(r == (ad == 1), "value: isInteger");', ''),
 'FastRational__isZero': ('t_bool r = F(&a);', '__CPROVER_assert(r == (an == 0), "value: isZero");', ''),
 'FastRational__isOne': ('t_bool r = F(&a);', '__CPROVER_assert(r == (an == 1 && ad == 1), "value: isOne");', ''),
}
def h_unary(c):
    call, post, pre = UNARY[c]
    same = 'S_SAME(&a, an, ad);' if pre is not None else ''
    return '''void harness(void) { S_OPERAND(a) %s
  %s
  s_check(&a, "a"); %s
  %s
  OSMT_REACH("return");
}\n''' % (pre or '', call.replace('F(', c + '('), same, post)
CMP = {'FastRational__compare__FastRational_R': '__CPROVER_assert(((r > 0) - (r < 0)) == ((an*bd > bn*ad) - (an*bd < bn*ad)), "value: compare is the sign of a-b");',
       'FastRational__op_eq': '__CPROVER_assert((r != 0) == (an == bn && ad == bd), "value: equality");',
       'FastRational__op_lt': '__CPROVER_assert((r != 0) == (an*bd < bn*ad), "value: <");',
       'FastRational__op_le': '__CPROVER_assert((r != 0) == (an*bd <= bn*ad), "value: <=");',
       'FastRational__op_gt': '__CPROVER_assert((r != 0) == (an*bd > bn*ad), "value: >");',
       'FastRational__op_ge': '__CPROVER_assert((r != 0) == (an*bd >= bn*ad), "value: >=");',
       'FastRational__op_ne': '__CPROVER_assert((r != 0) == !(an == bn && ad == bd), "value: !=");'}
def h_cmp(c, alias):
    post = CMP[c]
    if alias: post = post.replace('bn', 'an').replace('bd', 'ad')
    ww = '' if c in ('FastRational__compare__FastRational_R', 'FastRational__op_eq', 'FastRational__op_ne') else ' __CPROVER_assume(FR_WORD(&a) && FR_WORD(&%s)); /* one-line wrappers of compare(): big operands are exercised through compare itself */' % ('a' if alias else 'b')
    return '''void harness(void) { S_OPERAND(a) %s %s
  t_int r = %s(&a, &%s);
  s_check(&a, "a"); S_SAME(&a, an, ad); %s
  %s
  OSMT_REACH("return");
}\n''' % ('' if alias else 'S_OPERAND(b)', ww, c, 'a' if alias else 'b', '' if alias else 's_check(&b, "b"); S_SAME(&b, bn, bd);', post)

def S(name, root, W, harness, nofr=False, **kw):
    kw.setdefault('stubs', POOL_STUBS); kw.setdefault('expected_wrap', (('absVal__word', 'type conversion'), ('absVal__lword', 'type conversion'), ('absVal__word', 'unary minus'), ('absVal__lword', 'unary minus'), ('additionAssign', '(t_lword)return_value_gcd__ulong_ulong'),
        # operator%: `(word)(d.num > 0 ? w : -w)` negates an unsigned value and converts it back: intended modular arithmetic
        ('FastRational__op_mod', 'type conversion in (t_uword)-'), ('FastRational__op_mod', 'type conversion in (t_word)'), ('FastRational__op_mod', 'unary minus')))
    kw.setdefault('timeout', 3000 if W >= 5 else 1500)
    return Job('%s.S%d' % (name, W), TU, root, tier='S', width=W, header='contracts/C15/fr_S.h', harness=harness, enforce=False,
               defines=('OSMT_GMP_EXACT', 'OSMT_CHECK_WF_ASSERTS') + (('OSMT_NO_FR',) if nofr else ()), unwindset=S_UNWIND(W), min_obligations=5,
               bounded_note='exhaustive over all well-formed operands at word width %d (big operands up to 2^%d)' % (W, W + 2), **kw)

def jobs_S(W, full=True):
    J = []
    for f in ('addition', 'subtraction', 'multiplication', 'division'):
        J.append(S(f, 'opensmt::' + f, W, h_bin(f, False), proves='exact value, canonical result, unique representation, operands unchanged -- word, big and mixed operands'))
        J.append(S(f + '.alias', 'opensmt::' + f, W, h_bin(f, True)))
    for f in ('additionAssign', 'subtractionAssign', 'multiplicationAssign', 'divisionAssign'):
        J.append(S(f, 'opensmt::' + f, W, h_assign(f, False)))
        J.append(S(f + '.alias', 'opensmt::' + f, W, h_assign(f, True)))
    for c in UNARY:
        J.append(S(c.replace('FastRational__', ''), c, W, h_unary(c)))
    for c in CMP:
        J.append(S(c.replace('FastRational__', ''), c, W, h_cmp(c, False)))
    J.append(S('compare.alias', 'FastRational__compare__FastRational_R', W, h_cmp('FastRational__compare__FastRational_R', True)))
    for nm, c, key in (('operator_plus', 'FastRational__op_plus', 'addition'), ('operator_minus', 'FastRational__op_minus__FastRational_R', 'subtraction'),
                       ('operator_mul', 'FastRational__op_mul', 'multiplication'), ('operator_div', 'FastRational__op_div', 'division')):
        n, d, pre = BIN[key]
        J.append(S(nm, c, W, '''void harness(void) { S_OPERAND(a) S_OPERAND(b) %s __CPROVER_assume(FR_WORD(&a) && FR_WORD(&b));
  struct FastRational r = %s(&a, &b);
  __CPROVER_assume(!g_gmp_arith);
  s_check(&r, "r"); s_check(&a, "a"); s_check(&b, "b"); S_SAME(&a, an, ad); S_SAME(&b, bn, bd);
  S_EXACT(&r, %s, %s);
  OSMT_REACH("return");
}\n''' % (pre, c, n, d)))
    INTOPS = {
      'operator_mod': ('FastRational__op_mod', '__CPROVER_assume(bn != 0 && FR_WORD(&a) && FR_WORD(&b));',
         '__CPROVER_assert(VD(&r) == 1, "value: remainder is an integer"); __CPROVER_assert((an - VN(&r)) % bn == 0, "value: a - (a % d) is a multiple of d"); __CPROVER_assert(bn > 0 ? (VN(&r) >= 0 && VN(&r) < bn) : (VN(&r) <= 0 && VN(&r) > bn), "value: remainder lies between 0 and d (floor remainder, sign of d)");'),
      'fastrat_fdiv_q': ('fastrat_fdiv_q', '__CPROVER_assume(bn != 0);',
         '__CPROVER_assert(VD(&r) == 1, "value: quotient is an integer"); __CPROVER_assert(bn > 0 ? (VN(&r) * bn <= an && an < VN(&r) * bn + bn) : (VN(&r) * bn >= an && an > VN(&r) * bn + bn), "value: floor(n/d) <= n/d < floor(n/d)+1");'),
      'divexact': ('divexact', '__CPROVER_assume(bn != 0 && an % bn == 0);',
         '__CPROVER_assert(VD(&r) == 1 && VN(&r) * bn == an, "value: exact quotient");'),
      'gcd': ('gcd__FastRational_R_FastRational_R', '',
         '__CPROVER_assert(VD(&r) == 1 && VN(&r) == sp_gcd(sp_abs(an), sp_abs(bn)), "value: gcd is the non-negative greatest common divisor");'),
      'lcm': ('lcm__FastRational_R_FastRational_R', '',
         '__CPROVER_assert(VD(&r) == 1 && VN(&r) >= 0 && VN(&r) * sp_gcd(sp_abs(an), sp_abs(bn)) == sp_abs(an) * sp_abs(bn), "value: lcm * gcd == |a*b|, lcm >= 0");'),
    }
    for nm, (c, pre, post) in INTOPS.items():
        J.append(S(nm, c, W, '''void harness(void) { S_OPERAND(a) S_OPERAND(b) __CPROVER_assume(ad == 1 && bd == 1); %s
  struct FastRational r = %s(&a, &b);
  s_check(&r, "r"); s_check(&a, "a"); s_check(&b, "b"); S_SAME(&a, an, ad); S_SAME(&b, bn, bd);
  %s
  OSMT_REACH("return");
}\n''' % (pre, c, post)))
    J.append(S('cmpabs', 'opensmt::cmpabs', W, '''void harness(void) { S_OPERAND(a) S_OPERAND(b) __CPROVER_assume(FR_WORD(&a) && FR_WORD(&b));
  t_int r = cmpabs(a, b);
  wide l = sp_abs(an) * bd, rr = sp_abs(bn) * ad;
  __CPROVER_assert(((r > 0) - (r < 0)) == ((l > rr) - (l < rr)), "value: cmpabs is the sign of |a|-|b|");
  OSMT_REACH("return");
}\n'''))
    J.append(S('fastrat_round_to_int', 'opensmt::fastrat_round_to_int', W, '''void harness(void) { S_OPERAND(a) __CPROVER_assume(FR_WORD(&a));
  struct FastRational r = fastrat_round_to_int(&a);
  __CPROVER_assume(!g_gmp_arith);
  s_check(&r, "r"); S_SAME(&a, an, ad);
  __CPROVER_assert(VD(&r) == 1 && 2 * VN(&r) * ad <= 2 * an + ad && 2 * an + ad < 2 * (VN(&r) + 1) * ad, "value: round_to_int(x) == floor(x + 1/2)");
  OSMT_REACH("return");
}\n'''))
    J.append(S('ctor_word_uword', 'FastRational__ctor__word_uword', W, '''void harness(void) { struct FastRational x; t_word n = nondet_word(); t_uword d = nondet_uword(); __CPROVER_assume(d > 0);
  FastRational__ctor__word_uword(&x, n, d);
  s_check(&x, "x"); __CPROVER_assert(VN(&x) * (wide)(uwide)d == (wide)n * VD(&x), "value: FastRational(n,d) == n/d");
  OSMT_REACH("return");
}\n'''))
    J.append(S('gcd_uword', 'gcd__uint_uint', W, '''void harness(void) { t_uword a = nondet_uword(), b = nondet_uword();
  t_uword g = gcd__uint_uint(a, b);
  __CPROVER_assert((wide)(uwide)g == sp_gcd((wide)(uwide)a, (wide)(uwide)b), "value: gcd<uword> is the greatest common divisor (the contract assumed at real width)");
  OSMT_REACH("return");
}\n''', nofr=True))
    J.append(S('gcd_ulword', 'gcd__ulong_ulong', W, '''void harness(void) { t_ulword nondet_ulword(void); t_ulword a = nondet_ulword(), b = nondet_ulword();
  t_ulword g = gcd__ulong_ulong(a, b);
  __CPROVER_assert((wide)(uwide)g == sp_gcd((wide)(uwide)a, (wide)(uwide)b), "value: gcd<ulword> is the greatest common divisor (the contract assumed at real width)");
  OSMT_REACH("return");
}\n''', nofr=True))
    return J

def jobs(tier):
    if tier == 'quick':
        return jobs_R() + jobs_S(4)
    # width 5: every S job except the two that do not finish within the 3000 s limit on this machine (they are decided at width 4 only)
    return jobs_R() + jobs_S(4) + [j for j in jobs_S(5) if j.name not in ('compare__FastRational_R.S5', 'gcd_ulword.S5')]

def info(tier, results):
    return {'level': 'proof', 'trusted_base': ['clang 14 AST', 'osmt2c lowering', 'CBMC 6.11 (goto-cc, goto-instrument --dfcc, MiniSat)'],
            'assumptions': ['GMP functions behave as the stub contracts in stubs/gmp_R.h say'], 'explanation': ''}


# ------------------------------------------------------------------------------------------------- replay
import subprocess, tempfile, shutil, itertools
import vrun
OPMAP = {'op_minus__void': 'negate', 'operator_neg': 'negate', 'FastRational__op_minus__void': 'negate', 'compare__FastRational_R': 'compare', 'op_eq': 'compare', 'operator_eq': 'compare', 'operator_plus': 'addition', 'operator_minus': 'subtraction', 'operator_mul': 'multiplication', 'operator_div': 'division', 'operator_mod': 'mod',
         'op_lt': 'compare', 'op_le': 'compare', 'op_gt': 'compare', 'op_ge': 'compare', 'op_ne': 'compare', 'sign': 'query', 'isInteger': 'query',
         'isZero': 'query', 'isOne': 'query', 'operator%': 'mod', 'fastrat_fdiv_q': 'fdiv_q'}
def _build_replay(repo):
    d = tempfile.mkdtemp(prefix='osmt-replay.')
    exe = os.path.join(d, 'fr_replay')
    cmd = ['g++', '-std=c++20', '-O1', '-I%s/src/common/numbers' % repo, '-I%s/src' % repo, os.path.join(VERIF, 'replay/fr_replay.cc'),
           '%s/src/common/numbers/FastRational.cc' % repo, '-lgmpxx', '-lgmp', '-o', exe]
    r = subprocess.run(cmd, capture_output=True, text=True)
    if r.returncode != 0:
        shutil.rmtree(d, ignore_errors=True); raise RuntimeError('replay build failed: ' + r.stderr[-500:])
    return d, exe

def _cands(n, d, W):
    """candidate real-width values for a counterexample value seen at width W (None = real width)"""
    out = [(n, d)]
    if W:
        lo, hi, umax = -(1 << (W - 1)), (1 << (W - 1)) - 1, (1 << W) - 1
        def m(v): return -2147483648 if v == lo else 2147483647 if v == hi else v
        def mu(v): return 4294967295 if v == umax else 2147483647 if v == hi else v
        out.append((m(n), mu(d)))
        sc = 1 << (32 - W)
        out.append((n * sc, d)); out.append((n, d * sc if d * sc <= 4294967295 else d)); out.append((m(n), d)); out.append((n, mu(d)))
    seen = []; 
    for c in out:
        if c not in seen and c[1] > 0: seen.append(c)
    return seen

def replay(r, o):
    name = r['job'].split('.')[0]
    op = OPMAP.get(name, name)
    tr = o.trace or []
    W = r.get('width') if r['tier'] == 'S' else None
    if r['tier'] == 'R':
        v = vrun.trace_values(tr, prefix='rp_')
        an, ad, bn, bd = vrun.toint(v.get('rp_a_num'), 0), vrun.toint(v.get('rp_a_den'), 1), vrun.toint(v.get('rp_b_num'), 1), vrun.toint(v.get('rp_b_den'), 1)
        stA, stB = v.get('rp_a_state'), v.get('rp_b_state')
    else:
        v = vrun.trace_values(tr, names=('an', 'ad', 'bn', 'bd'))
        def g(k, dflt): return vrun.toint(v.get(k), dflt)
        an, ad, bn, bd = g('an', 0), g('ad', 1), g('bn', 1), g('bd', 1)
        stA = stB = None
    d, exe = _build_replay(vrun.REPO)
    tried = []
    try:
        for (a1, a2), (b1, b2) in itertools.product(_cands(an, ad, W), _cands(bn, bd, W)):
            if a2 <= 0 or b2 <= 0: continue
            p = subprocess.run([exe, op, str(a1), str(a2), str(b1), str(b2)], capture_output=True, text=True, timeout=60)
            tried.append({'args': [op, a1, a2, b1, b2], 'exit': p.returncode, 'out': p.stdout[-400:]})
            if p.returncode == 1:
                return {'reproduced': True, 'input': {'op': op, 'a': '%d/%d' % (a1, a2), 'b': '%d/%d' % (b1, b2)}, 'output': p.stdout[-800:],
                        'how': 'g++ replay/fr_replay.cc + %s/src/common/numbers/FastRational.cc against GMP mpq_class oracle' % vrun.REPO, 'tried': len(tried)}
        p = subprocess.run([exe, op, 'sweep'], capture_output=True, text=True, timeout=600)
        if p.returncode == 1:
            return {'reproduced': True, 'input': p.stdout.strip().split('\n')[-1], 'output': p.stdout[-800:], 'tried': len(tried),
                    'how': 'the counterexample itself did not reproduce (abstract or non-canonical operand); a fixed corpus of boundary values run through the real function found this input (replay aid, not the deciding step)'}
        return {'reproduced': False, 'reason': 'the real code agrees with the oracle on the inputs derived from the counterexample (operand states a=%s b=%s; big or non-canonical operands of the abstract model cannot be reconstructed)' % (stA, stB), 'tried': tried[:6]}
    finally:
        shutil.rmtree(d, ignore_errors=True)
