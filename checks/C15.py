"""C15 -- Rational arithmetic is exact in both representations (opensmt::FastRational)."""
import os, re, json
from vrun import Job, VERIF

TU = 'src/common/numbers/FastRational.cc'
POOL_STUBS = ('opensmt::FastRational::mpqPool::alloc', 'opensmt::FastRational::mpqPool::release')
GCDS = ('gcd__uint_uint', 'gcd__ulong_ulong', 'gcd__int_int')
WRAP = (('absVal__word', 'type conversion in (t_uword)x'), ('absVal__lword', 'type conversion in (t_ulword)x'),
        ('absVal__word', 'unary minus'), ('absVal__lword', 'unary minus'),
        # lword common = gcd(absVal(n), d): wraps only when n == 0 and d >= 2^63; the wrapped value then fails `common > 1`
        # and CHECK_UWORD(zd, d) sends the computation to GMP -- checked for value-exactness in the S tier
        ('additionAssign', '(t_lword)return_value_gcd__ulong_ulong'))

def R(name, root, **kw):
    kw.setdefault('replace', GCDS); kw.setdefault('stubs', POOL_STUBS); kw.setdefault('expected_wrap', WRAP)
    kw.setdefault('min_obligations', 5)
    return Job(name + '.R', TU, root, tier='R', header='contracts/C15/fr_R.h', **kw)

def jobs_R():
    J = []
    for f in ('addition', 'subtraction', 'multiplication', 'division', 'additionAssign', 'subtractionAssign', 'multiplicationAssign', 'divisionAssign'):
        J.append(R(f, 'opensmt::' + f, proves='UB-freedom, typestate of the GMP path, frame, operands unchanged, canonical word representation, exact value on the integer-denominator paths'))
    for f, c in (('operator-()', 'FastRational__op_minus__void'), ('inverse', 'FastRational__inverse'), ('ceil', 'FastRational__ceil'), ('floor', 'FastRational__floor'),
                 ('get_num', 'FastRational__get_num'), ('get_den', 'FastRational__get_den'), ('negate', 'FastRational__negate'), ('sign', 'FastRational__sign'),
                 ('isInteger', 'FastRational__isInteger'), ('isZero', 'FastRational__isZero'), ('isOne', 'FastRational__isOne'),
                 ('compare', 'FastRational__compare__FastRational_R'), ('operator==', 'FastRational__op_eq'),
                 ('FastRational(word,uword)', 'FastRational__ctor__word_uword'), ('FastRational(uint32_t)', 'FastRational__ctor__uint32_t'),
                 ('FastRational(const&)', 'FastRational__ctor__FastRational_R'), ('operator=(const&)', 'FastRational__op_assign__FastRational_R'),
                 ('absVal(word)', 'absVal__word'), ('absVal(lword)', 'absVal__lword'), ('compare(lword,lword)', 'FastRational__compare__lword_lword')):
        J.append(R(f, c))
    return J

def jobs(tier):
    return jobs_R()

def info(tier, results):
    return {'level': 'proof', 'trusted_base': ['clang 14 AST', 'osmt2c lowering', 'CBMC 6.11 (goto-cc, goto-instrument --dfcc, MiniSat)'],
            'assumptions': ['GMP functions behave as the stub contracts in stubs/gmp_R.h say'], 'explanation': ''}
