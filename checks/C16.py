"""C16 -- Numeric literals are read and printed exactly (literal classification and decimal->fraction conversion)."""
import os
from vrun import Job, VERIF
TU = os.path.join(VERIF, 'shims/stringconv.cc')

H_COMMON = '''
static void mk_input(char *s) { for (int k = 0; k < OSMT_N; k++) s[k] = nondet_char(); s[OSMT_N] = 0; }
'''
H_INT = H_COMMON + '''void harness(void) { char s[OSMT_N + 1]; mk_input(s);
  t_bool r = isIntString(s);
  const char *p = s[0] == '-' ? s + 1 : s;
  struct lit l = spec_parse(p, OSMT_N);
  __CPROVER_assert(r == (l.ok && l.sep == 0), "isIntString(s) <=> s matches -?[0-9]+");
  OSMT_REACH("return");
}
'''
H_REAL = H_COMMON + '''void harness(void) { char s[OSMT_N + 1]; mk_input(s);
  t_bool r = isRealString(s);
  const char *p = s[0] == '-' ? s + 1 : s;
  struct lit l = spec_parse(p, OSMT_N);
  /* every strict literal (numeral, decimal, fraction) is classified as real-form ... */
  __CPROVER_assert(!l.ok || r, "isRealString accepts every numeral, decimal and fraction literal");
  /* ... and nothing containing a character that cannot occur in a literal, nor the empty string or a bare sign, is */
  t_bool bad = (p[0] == 0); for (int k = 0; k < OSMT_N && p[k]; k++) if (!(is_dig(p[k]) || p[k] == '.' || p[k] == '/')) bad = 1;
  __CPROVER_assert(!bad || !r, "isRealString rejects strings with characters outside [0-9./] and the empty literal");
  OSMT_REACH("return");
}
'''
H_CONV = H_COMMON + '''void harness(void) { char s[OSMT_N + 1]; mk_input(s);
  char *rat = 0; __osmt_thrown = 0; g_norm_calls = 0;
  const char *p = s[0] == '-' ? s + 1 : s;
  struct lit l = spec_parse(p, OSMT_N);
  t_bool strict = l.ok && !(l.sep == '/' && l.b == 0);
  t_bool illformed = !l.ok && (p[0] == 0);
  for (int k = 0; k < OSMT_N && p[k]; k++) if (!(is_dig(p[k]) || p[k] == '.' || p[k] == '/')) illformed = 1;
  if (l.ok && l.sep == '/' && l.b == 0) illformed = 1;           /* zero denominator */
  stringToRational(&rat, s);
  if (strict) {
    __CPROVER_assert(__osmt_thrown == 0, "a well-formed numeral / decimal / fraction literal is accepted");
    __CPROVER_assert(g_norm_calls == 1, "exactly one conversion result is produced");
    __CPROVER_assert(g_norm_neg == (s[0] == '-') || (l.a == 0 && l.b == 0), "the sign of the literal is kept");
    struct lit o = spec_parse(g_norm_str, 2 * OSMT_N + 8);
    __CPROVER_assert(o.ok && o.sep != '.', "the string handed to GMP is an integer or a fraction n/d");
    u64 on = o.a, od = (o.sep == '/') ? o.b : 1;
    __CPROVER_assert(od != 0, "the string handed to GMP has a non-zero denominator");
    /* no leading zero may reach GMP unless it reads base 10 (a leading 0 means octal in base 0) */
    __CPROVER_assert(OSMT_GMP_BASE10 || ((g_norm_str[0] != '0' || o.alen == 1) && (o.sep != '/' || g_norm_str[o.alen + 1] != '0' || o.blen == 1)), "no leading zero reaches a base-0 mpq_set_str (it would be read as octal)");
    /* value(out) == value(literal), i.e. on * in_d == in_n * od.  The denominators of a decimal literal are powers of ten, so the
       products are taken by shift-add scaling; the general products are only formed when an output denominator is not a power of ten */
    if (l.sep == '/') {
      __CPROVER_assert((on == l.a && od == l.b) || on * l.b == l.a * od, "value: the converted fraction denotes exactly the literal");
    } else {
      int kin = (l.sep == '.') ? l.blen : 0;
      u64 in_n = (l.sep == '.') ? scale10(l.a, kin) + l.b : l.a;
      int ko = log10exact(od);
      if (ko >= 0) __CPROVER_assert(scale10(on, kin) == scale10(in_n, ko), "value: the converted fraction denotes exactly the literal");
      else __CPROVER_assert(on * pow10u(kin) == in_n * od, "value: the converted fraction denotes exactly the literal");
    }
  }
  if (illformed) {
    __CPROVER_assert(__osmt_thrown != 0, "an ill-formed literal is rejected");
    __CPROVER_assert(g_norm_calls == 0, "nothing ill-formed reaches GMP");
  }
  OSMT_REACH("return");
}
'''
def h_conv_class(assume):
    return H_CONV.replace("char s[OSMT_N + 1]; mk_input(s);", "char s[OSMT_N + 1]; mk_input(s); for (int k = 0; k < OSMT_N; k++) __CPROVER_assume(%s);" % assume, 1)

def job(name, root, harness, N, **kw):
    loops = ['isIntString.0:%d' % (N + 2), 'isRealString.0:%d' % (N + 2), 'stringToRational.0:%d' % (N + 2), 'stringToRational.1:%d' % (N + 2),
             'stringToRational.2:%d' % (N + 2), 'stringToRational.3:%d' % (N + 2), 'normalize.0:%d' % (2 * N + 10), 'spec_parse.0:%d' % (2 * N + 10), 'spec_parse.1:%d' % (2 * N + 10),
             'pow10u.0:%d' % (2 * N + 10), 'scale10.0:%d' % (2 * N + 10), 'log10exact.0:%d' % (2 * N + 10), 'mk_input.0:%d' % (N + 2), 'harness.0:%d' % (N + 2), 'harness.1:%d' % (N + 2), 'harness.2:%d' % (N + 2)]
    return Job('%s.N%d' % (name, N), TU, root, tier='R', header='contracts/C16/strconv.h', harness=harness, enforce=False, pre_includes=(),
               stubs=('opensmt::normalize',), defines=('OSMT_N %d' % N, 'OSMT_GMP_BASE10 %d' % kw.pop('base10', 1)), unwindset=tuple(loops), default_unwind=2 * N + 10, min_obligations=3, timeout=1800,
               bounded_note='exhaustive over all NUL-terminated byte strings of at most %d bytes' % N, **kw)

H_BASE = '''void harness(void) { t_char *rat; t_char in[4]; in[0] = '1'; in[1] = '/'; in[2] = '3'; in[3] = 0;
  normalize(&rat, in, nondet_char() != 0);
  __CPROVER_assert(g_setstr_calls == 1 && g_base == 10, "normalize reads its argument in base 10 (a leading 0 is not octal)");
  OSMT_REACH("return");
}
'''
def value_job(N):
    # value-only instance for longer literals: same lowered text and harness, but only the harness assertions and the code's asserts
    # (no pointer/bounds/overflow instrumentation: those obligations are discharged by the instrumented job at the smaller bound)
    j = job('stringToRational.value', 'opensmt::stringToRational', H_CONV, N, weight=40, checks=[])
    j.bounded_note = 'value obligations only, exhaustive over all NUL-terminated byte strings of at most %d bytes' % N
    return j

H_PRINT = '''/* every canonical machine-word constant of the scaled width, one after the other, with CONCRETE values: symbolic string lengths make the SAT instance
   intractable (16 M variables at width 4), concrete ones are plain symbolic execution */
static void one(t_word num, t_uword den) {
  s_blocks = 0; h_mpq_used = 0; g_frees = 0;
  h_val.state = 1; h_val.num = num; h_val.den = den; h_val.mpq = (mpq_ptr)0;
  struct PTRef tr; tr.x = 7;
  struct osmt_string r = ArithLogic__termToSMT2StringImpl((struct ArithLogic *)0, tr, 0);
  struct printed p = pr_read(r.p, r.n);
  __CPROVER_assert(p.ok, "the printed text is one of  N | (- N) | (/ N D) | (/ (- N) D)  with decimal numerals");
  __CPROVER_assert(p.d != 0, "the printed denominator is not zero");
  long long n = num; unsigned long long an = n < 0 ? (unsigned long long)(-n) : (unsigned long long)n, d = den;
  __CPROVER_assert(p.n * d == an * p.d, "value: the printed text denotes the magnitude of the constant");
  __CPROVER_assert(p.neg == (n < 0) || an == 0, "value: the printed text carries the sign of the constant");
}
static int h_gcd(int a, int b) { for (int k = 0; k < 8; k++) { if (b == 0) break; int t = a % b; a = b; b = t; } return a; }
void harness(void) {
  for (int n = -(1 << (OSMT_W - 1)); n < (1 << (OSMT_W - 1)); n++)
    for (int d = 1; d < (1 << OSMT_W); d++)
      if (h_gcd(n < 0 ? -n : n, d) == 1) one((t_word)n, (t_uword)d);
  OSMT_REACH("return");
}
'''
def print_job(W=4):
    import checks.C15 as C15
    return Job('termToSMT2String.S%d' % W, 'src/logics/ArithLogic.cc', 'opensmt::ArithLogic::termToSMT2StringImpl', tier='S', width=W, header='contracts/C16/print.h', harness=H_PRINT, enforce=False, aux_tu=C15.TU,
               pre_includes=('stubs/gmp_types.h', 'stubs/std_types.h', 'contracts/C16/print_types.h'),
               stubs=C15.POOL_STUBS + ('opensmt::Logic::termToSMT2StringImpl', 'opensmt::ArithLogic::isNumConst', 'opensmt::stringToRational', 'opensmt::Logic::getPterm', 'opensmt::SymStore::getName', 'opensmt::Pterm::symb', 'FastRational__ctor__char_P_int'),
               opaque=('opensmt::ArithLogic', 'opensmt::Logic', 'opensmt::SymStore'), defines=('OSMT_GMP_EXACT', 'OSMT_CHECK_WF_ASSERTS'), unwindset=C15.S_UNWIND(W) + ('sp_coprime.0:56', 'harness.0:%d' % ((1 << W) + 1), 'harness.1:%d' % ((1 << W) + 1)), default_unwind=18, min_obligations=5, timeout=1800, object_bits=12, weight=30,
               expected_wrap=(('absVal__word', 'type conversion'), ('absVal__lword', 'type conversion'), ('absVal__word', 'unary minus'), ('absVal__lword', 'unary minus')),
               bounded_note='every canonical machine-word constant at word width %d (the most negative numerator goes through the GMP path); strings of at most 16 bytes' % W,
               proves='the text printed for a numeric constant denotes the constant (value and sign)')

ALPHABETS = {'01dot': "01.", '07slash': "07/", 'minus03dot': "-03.", '09dotslash': "09./"}
def small_alphabet_job(name, N):
    # literals over a small alphabet: few digit values, every zero / non-zero / separator pattern -- this is what makes longer literals feasible (the cost is in the
    # symbolic characters, not in the length: 10 bytes over {0,1,.} take 80 s where 6 arbitrary bytes exhaust the memory)
    chars = ALPHABETS[name]
    cond = ' || '.join(["s[k] == '%s'" % c for c in chars] + ['s[k] == 0'])
    j = job('stringToRational.alphabet_%s' % name, 'opensmt::stringToRational', h_conv_class(cond), N, weight=40, checks=[])
    j.defines = j.defines + ('OSMT_STATIC_MALLOC',)
    j.bounded_note = 'value obligations only, exhaustive over all NUL-terminated strings of at most %d bytes over the alphabet {%s}' % (N, ' '.join(chars))
    return j

def small_alphabet_safety_job(name, N):
    # the same strings with the full instrumentation (bounds / pointer / overflow obligations); the conversion buffer is the tail of a static array (a write past the requested size leaves the array)
    chars = ALPHABETS[name]
    cond = ' || '.join(["s[k] == '%s'" % c for c in chars] + ['s[k] == 0'])
    j = job('stringToRational.safety_%s' % name, 'opensmt::stringToRational', h_conv_class(cond), N, weight=40)
    j.defines = j.defines + ('OSMT_STATIC_MALLOC', 'OSMT_STATIC_MALLOC_END')
    j.bounded_note = 'exhaustive over all NUL-terminated strings of at most %d bytes over the alphabet {%s}' % (N, ' '.join(chars))
    return j


# ---- unbounded in the loop: isIntString under a loop contract.  The input is a static array of OSMT_CAP bytes with arbitrary contents and a NUL at an arbitrary position
# (capacity-bounded, therefore still reported as bounded -- but the function's loop is closed by its invariant, not by unwinding: the harness loop that builds the
# array and finds the first non-digit is the only thing unwound).
H_INT_LC = '''int nondet_int(void);
void harness(void) {
  h_len = nondet_int(); __CPROVER_assume(h_len >= 0 && h_len <= OSMT_CAP);
  g_w = -1;
  t_int first = 0;
  for (int k = 0; k < OSMT_CAP; k++) {
    h_s[k] = nondet_char();
    if (k < h_len) __CPROVER_assume(h_s[k] != 0);
    if (k == 0 && h_len > 0 && h_s[0] == '-') first = 1;
    if (k >= first && k < h_len && g_w < 0 && !is_dig(h_s[k])) g_w = k;   /* position of the first character that is not a digit, if any */
  }
  h_s[h_len] = 0;
  t_bool r = isIntString(h_s);
  __CPROVER_assert(r == (h_len > first && g_w < 0), "isIntString(s) <=> s matches -?[0-9]+ (loop closed by its invariant)");
  OSMT_REACH("return");
}
'''
def int_loop_contract_job(cap=1024):
    return Job('isIntString.loopcontract.cap%d' % cap, TU, 'opensmt::isIntString', tier='R', header='contracts/C16/strconv.h', harness=H_INT_LC, enforce=False, loop_contracts=True, pre_includes=(),
               stubs=('opensmt::normalize',), defines=('OSMT_N 4', 'OSMT_CAP %d' % cap, 'C16_INT_LC'), unwindset=('harness.0:%d' % (cap + 2),), min_obligations=3, timeout=1200, weight=15,
               bounded_note='loop closed by a loop contract (invariant + variant); input: every NUL-terminated byte string that fits a buffer of %d bytes' % cap,
               proves='isIntString(s) <=> s in -?[0-9]+, for a string of any length within the buffer; no read outside the buffer')

# isRealString under a loop contract: the harness runs the literal grammar's own automaton (numeral | decimal | fraction, states 0..5 as below, 9 = dead) over the buffer and records
# the state before every position; the invariant says that the function's state is that state as long as the grammar is alive, and that a foreign character stops the scan.
H_REAL_LC = '''int nondet_int(void);
void harness(void) {
  h_len = nondet_int(); __CPROVER_assume(h_len >= 0 && h_len <= OSMT_CAP);
  g_w = -1; h_first = 0;
  t_int st = 0;
  for (int k = 0; k < OSMT_CAP; k++) {
    h_s[k] = nondet_char();
    if (k < h_len) __CPROVER_assume(h_s[k] != 0);
    if (k == 0 && h_len > 0 && h_s[0] == '-') h_first = 1;
    h_st[k] = (t_char)st;
    if (k >= h_first && k < h_len) {
      char c = h_s[k];
      if (g_w < 0 && !(is_dig(c) || c == '.' || c == '/')) g_w = k;       /* first character that cannot occur in a literal */
      /* numeral D+ (1) | decimal D+ . D+ (1 2 3) | fraction D+ / D+ (1 4 5) */
      if (st == 0) st = is_dig(c) ? 1 : 9;
      else if (st == 1) st = is_dig(c) ? 1 : c == '.' ? 2 : c == '/' ? 4 : 9;
      else if (st == 2 || st == 3) st = is_dig(c) ? 3 : 9;
      else if (st == 4 || st == 5) st = is_dig(c) ? 5 : 9;
    }
  }
  h_st[OSMT_CAP] = (t_char)st;   /* (only reached when h_len == OSMT_CAP) */
  h_s[h_len] = 0;
  t_int fin = h_st[h_len];
  t_bool r = isRealString(h_s);
  __CPROVER_assert(!(h_len > h_first && (fin == 1 || fin == 3 || fin == 5)) || r, "isRealString accepts every numeral, decimal and fraction literal (loop closed by its invariant)");
  __CPROVER_assert(!(g_w >= 0 || h_len == h_first) || !r, "isRealString rejects strings with characters outside [0-9./] and the empty literal (loop closed by its invariant)");
  OSMT_REACH("return");
}
'''
def real_loop_contract_job(cap=1024):
    return Job('isRealString.loopcontract.cap%d' % cap, TU, 'opensmt::isRealString', tier='R', header='contracts/C16/strconv.h', harness=H_REAL_LC, enforce=False, loop_contracts=True, pre_includes=(),
               stubs=('opensmt::normalize',), defines=('OSMT_N 4', 'OSMT_CAP %d' % cap, 'C16_REAL_LC'), unwindset=('harness.0:%d' % (cap + 2),), min_obligations=3, timeout=1200, weight=15,
               bounded_note='loop closed by a loop contract (invariant + variant); input: every NUL-terminated byte string that fits a buffer of %d bytes' % cap,
               proves='isRealString accepts every literal of the grammar and rejects foreign characters, for a string of any length within the buffer')

def jobs(tier, N=None):
    if os.environ.get('C16_TRY_REAL'): return [real_loop_contract_job(int(os.environ['C16_TRY_REAL']))]
    if os.environ.get('C16_TRY_SAFE'):
        nm, n = os.environ['C16_TRY_SAFE'].split(','); return [small_alphabet_safety_job(nm, int(n))]
    if os.environ.get('C16_TRY_ALPHA'):
        nm, n = os.environ['C16_TRY_ALPHA'].split(','); return [small_alphabet_job(nm, int(n))]
    N = N or (4 if tier == 'quick' else 5)
    NC = 16 if tier == 'quick' else 32      # the classifiers have no arithmetic: all byte strings of 16 / 32 bytes take seconds (the reference reader accumulates in 128 bits: 64 digits would wrap)
    return [int_loop_contract_job(1024), real_loop_contract_job(256), job('isIntString', 'opensmt::isIntString', H_INT, NC), job('isRealString', 'opensmt::isRealString', H_REAL, NC),
            job('stringToRational', 'opensmt::stringToRational', H_CONV, N, weight=20),
            # (longer literals were tried and are NOT registered: all strings of 6 bytes exhaust MiniSat's and cadical's memory; one fixed shape d.ddddd of 7 bytes, with a static conversion
            #  buffer and shift-add value arithmetic, still does not finish in 30 min)
            Job('normalize.base', TU, 'opensmt::normalize', tier='R', header='contracts/C16/normalize.h', harness=H_BASE, enforce=False, pre_includes=('stubs/gmp_types.h',),
                min_obligations=1, default_unwind=4, proves='normalize hands the literal to GMP with base 10')] + \
           [small_alphabet_job(nm, 8 if tier == 'quick' else 10) for nm in ('01dot', '07slash', 'minus03dot', '09dotslash')] + \
           [small_alphabet_safety_job(nm, 6 if tier == 'quick' else 8) for nm in ('01dot', '09dotslash')]
    # print_job() (ArithLogic::termToSMT2StringImpl + FastRational::get_str over a concrete std::string/ostream model) is NOT registered: see DESIGN 3 C16

def info(tier, results):
    return {'level': 'other' if all(r['tier']=='S' or r.get('bounded_note') for r in results) else 'proof', 'trusted_base': ['clang 14 AST', 'osmt2c lowering', 'CBMC 6.11'], 'assumptions': [], 'explanation': ''}


# ------------------------------------------------------------------------------------------------- replay
import subprocess, tempfile, shutil, re
import vrun
def replay(r, o):
    """run the real StringConv.h functions on the counterexample string"""
    vals = {}
    for st in o.trace or []:
        if st.get('stepType') != 'assignment': continue
        m = re.match(r'^s\[(\d+)l?\]$', st.get('lhs', ''))
        if m:
            v = st.get('value', {}); d = v.get('data', v.get('name'))
            b = v.get('binary')
            if b is not None: vals[int(m.group(1))] = int(b, 2) & 0xff
            else:
                t = str(d)
                if len(t) == 3 and t[0] == t[2] == "'": vals[int(m.group(1))] = ord(t[1])
                else: vals[int(m.group(1))] = (vrun.toint(t, 0) or 0) & 0xff
    if not vals: return {'reproduced': False, 'reason': 'no input bytes in the trace'}
    bs = bytes(vals.get(k, 0) for k in range(max(vals) + 1))
    bs = bs.split(b'\0')[0]
    d = tempfile.mkdtemp(prefix='osmt-replay.')
    try:
        exe = os.path.join(d, 'scr')
        c = subprocess.run(['g++', '-std=c++20', '-I%s/src' % vrun.REPO, os.path.join(VERIF, 'replay/strconv_replay.cc'), '-lgmpxx', '-lgmp', '-o', exe], capture_output=True, text=True)
        if c.returncode != 0: return {'reproduced': False, 'error': 'replay build failed: ' + c.stderr[-400:]}
        p = subprocess.run([exe, bs.hex() + '00'], capture_output=True, text=True, timeout=60)
        return {'reproduced': p.returncode == 1, 'input_bytes_hex': bs.hex(), 'input': bs.decode('latin-1'), 'output': p.stdout[-600:], 'exit': p.returncode,
                'how': 'g++ replay/strconv_replay.cc against %s/src/common/StringConv.h, oracle: GMP reading of the literal' % vrun.REPO}
    finally:
        shutil.rmtree(d, ignore_errors=True)
