"""C11 -- Every theory clause used in search is valid in the theory (partial: LA conflict explanations via their Farkas certificates, LIA branch-and-bound splits)."""
import checks.C26 as C26, checks.C02 as C02
H_STP = '''void harness(void) {
  /* asserted edges 0..NE-1, the deduced edge is NE */
  t_int pot[NVX]; for (int v = 0; v < NVX; v++) { pot[v] = nondet_int(); __CPROVER_assume(pot[v] >= -20 && pot[v] <= 20); g_outn[v] = 0; }
  for (int k = 0; k < NE; k++) { struct Edge_SafeInt *e = &h_edge[k]; e->from.x = nondet_uchar() % NVX; e->to.x = nondet_uchar() % NVX; __CPROVER_assume(e->from.x != e->to.x);      /* an atom of difference logic relates two different variables (x - x <= c is folded to a constant) */
    t_int c = nondet_int(); __CPROVER_assume(c >= -2 && c <= 2); e->cost.val = c;
    e->setTime = 1 + (nondet_uchar() & 7); e->neg.x = UNDEF_E;
    __CPROVER_assume(pot[e->to.x] - pot[e->from.x] <= c);                         /* consistent assertions: no negative cycle */
    g_out[e->from.x][g_outn[e->from.x]].x = (t_u32)k; g_outn[e->from.x]++; }
  struct Edge_SafeInt *d = &h_edge[E_DED]; d->from.x = nondet_uchar() % NVX; d->to.x = nondet_uchar() % NVX; __CPROVER_assume(d->from.x != d->to.x);
  t_int dc = nondet_int(); __CPROVER_assume(dc >= -6 && dc <= 6); d->cost.val = dc; d->setTime = 1 + (nondet_uchar() & 7); d->neg.x = UNDEF_E;
  /* the edge was deduced: some path of one or two eligible edges entails it */
  t_uchar p1 = nondet_uchar() % NE, p2 = nondet_uchar() % NE; t_bool two = nondet_bool();
  __CPROVER_assume(h_edge[p1].setTime <= d->setTime && h_edge[p1].from.x == d->from.x);
  if (two) __CPROVER_assume(p2 != p1 && h_edge[p2].setTime <= d->setTime && h_edge[p1].to.x == h_edge[p2].from.x && h_edge[p2].to.x == d->to.x && h_edge[p1].cost.val + h_edge[p2].cost.val <= dc);
  else __CPROVER_assume(h_edge[p1].to.x == d->to.x && h_edge[p1].cost.val <= dc);
  struct STPGraphManager_SafeInt M; M.store = &h_store; M.mapper = &h_mapper; M.timestamp = 9;
  struct EdgeRef er; er.x = E_DED; struct vec_PtAsgn out; out.data = (struct PtAsgn *)0; out.sz = 0; out.cap = 0; g_nres = 0; __osmt_thrown = 0;
  STPGraphManager_SafeInt__findExplanation(&M, er, &out);
  __CPROVER_assert(!__osmt_thrown, "no arithmetic overflow on these small costs");
  __CPROVER_assert(g_nres >= 1 && g_nres <= NE, "the explanation is a non-empty list of asserted edges, each at most once");
  /* the literals name edges that form a path from d->from to d->to (they are pushed from the target backwards) with total cost <= the deduced cost */
  t_int total = 0; t_u32 at = d->to.x; t_bool ok = 1;
  for (int i = 0; i < NE; i++) if (i < g_nres) { t_u32 k = g_res[i].tr.x - 100; if (k >= NE) { ok = 0; break; }
    if (h_edge[k].to.x != at || h_edge[k].setTime > d->setTime) ok = 0; total += (t_int)h_edge[k].cost.val; at = h_edge[k].from.x; }
  __CPROVER_assert(ok, "the explanation literals are asserted edges, none newer than the deduced edge, each ending where the next begins");
  __CPROVER_assert(at == d->from.x, "the path starts at the source of the deduced edge");
  __CPROVER_assert(total <= dc, "the costs along the path sum to at most the deduced cost: the explanation entails the deduced constraint");
  OSMT_REACH("return");
}
'''

def stp_job():
    import os
    from vrun import Job, VERIF
    return Job('findExplanation.R', os.path.join(VERIF, 'shims/stp_numbers.cc'), 'opensmt::STPGraphManager<opensmt::SafeInt>::findExplanation', tier='R', header='contracts/C11/stpexpl.h', harness=H_STP, enforce=False,
               pre_includes=('stubs/gmp_types.h', 'stubs/std_types.h', 'contracts/C11/types.h'),
               stubs=('opensmt::STPStore<opensmt::SafeInt>::getEdge', 'opensmt::STPMapper<opensmt::SafeInt>::getAssignment', 'opensmt::STPStore<opensmt::SafeInt>::vertexNum', 'vec_PtAsgn__push__PtAsgn_R'),
               opaque=('opensmt::STPStore<opensmt::SafeInt>', 'opensmt::STPMapper<opensmt::SafeInt>'), default_unwind=10, min_obligations=5, object_bits=12, timeout=1500, weight=20,
               bounded_note='graphs of 3 vertices and 3 asserted edges with costs in [-2, 2], consistent (a potential function exists), the deduced edge entailed by a path of at most two edges',
               proves='the explanation of a deduced difference constraint is a path of asserted, not newer edges from its source to its target whose costs sum to at most its cost')
def jobs(tier):
    return C26.jobs(tier) + C02.jobs_lia() + [stp_job()]
def info(tier, results):
    i = C26.info(tier, results)
    i['level'] = 'other'
    i['explanation'] = ('A clause of linear arithmetic "not all of these bounds" is valid in the theory exactly if a non-negative combination of the bounds cancels every variable and leaves a false constant inequality (Farkas). '
                        'The jobs shared with C26 decide that for the row-based explanation (getConflictingBounds: positive coefficients, every variable cancels; pivot selection: the conflict is reported only when no row variable can move, which makes the constant false) '
                        'and for the bound conflict of assertBound (the asserted bound and the active opposite bound of the same variable). The job shared with C02 decides that a branch-and-bound split is x <= c or x >= c+1 with integer c, which is valid over the integers. '
                        + i.get('explanation', ''))
    i['assumptions'] = i.get('assumptions', []) + ['integer variables range over the integers (validity of x <= c or x >= c+1)', 'the explanation literals are the negations of the named bounds (THandler::getConflict, not under contract)']
    return i
