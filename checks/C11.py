"""C11 -- Every theory clause used in search is valid in the theory (partial: LA conflict explanations via their Farkas certificates, LIA branch-and-bound splits)."""
import checks.C26 as C26, checks.C02 as C02
def jobs(tier):
    return C26.jobs(tier) + C02.jobs_lia()
def info(tier, results):
    i = C26.info(tier, results)
    i['level'] = 'other'
    i['explanation'] = ('A clause of linear arithmetic "not all of these bounds" is valid in the theory exactly if a non-negative combination of the bounds cancels every variable and leaves a false constant inequality (Farkas). '
                        'The jobs shared with C26 decide that for the row-based explanation (getConflictingBounds: positive coefficients, every variable cancels; pivot selection: the conflict is reported only when no row variable can move, which makes the constant false) '
                        'and for the bound conflict of assertBound (the asserted bound and the active opposite bound of the same variable). The job shared with C02 decides that a branch-and-bound split is x <= c or x >= c+1 with integer c, which is valid over the integers. '
                        + i.get('explanation', ''))
    i['assumptions'] = i.get('assumptions', []) + ['integer variables range over the integers (validity of x <= c or x >= c+1)', 'the explanation literals are the negations of the named bounds (THandler::getConflict, not under contract)']
    return i
