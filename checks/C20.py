"""C20 -- Pipe mode and file mode produce identical results (framing mechanism); shares its job with C18."""
import os
from vrun import Job, VERIF
Q = 'opensmt::Interpret::interpPipe'
def jobs(tier):
    return [Job('interpPipe.R', 'src/api/Interpret.cc', Q, tier='R', header='contracts/C20/pipe.h', pre_includes=(),
                stubs=('opensmt::Interpret::execute', 'opensmt::Interpret::notify_formatted', 'Smt2newContext__ctor__char_P', 'Smt2newContext__getRoot'),
                opaque=('opensmt::Interpret', 'opensmt::Smt2newContext', 'opensmt::ASTNode'), ghost_buffers={'buf': {Q}, 'buf_out': {Q}},
                loop_contracts=True, min_obligations=50, expected_wrap=(('Interpret__interpPipe', 'pointer relation:'), ('memchr', 'pointer relation:')), timeout=900, reach=('return', 'scan', 'copy', 'shift'),
                harness='void harness(void) { t_int r = Interpret__interpPipe((struct Interpret *)0); OSMT_REACH("return of interpPipe"); }\n',
                proves='framing flags == lexer start-condition automaton after every byte, for every input and chunking; index safety of both buffers')]
def info(tier, results):
    return {'level': 'proof', 'trusted_base': ['clang 14 AST', 'osmt2c lowering (ghost-size mode for buf and buf_out)', 'CBMC 6.11 dfcc + loop contracts'],
            'assumptions': [], 'explanation': ''}


# ------------------------------------------------------------------------------------------------- replay
import subprocess, tempfile, shutil, time
import vrun
CORPUS = [
  '(set-logic QF_UF)\n(echo "a\\"b")\n(check-sat)\n',
  '(set-logic QF_UF)\n(echo "x) (y")\n(echo "p\\\\")\n(check-sat)\n',
  '(set-logic QF_UF)\n(declare-fun |a ) ; b| () Bool)\n(assert |a ) ; b|)\n(check-sat)\n',
  '; a comment with ( and " and |\n(set-logic QF_UF) ; trailing ) comment\n(declare-fun p () Bool)\n(assert p)\n(check-sat)\n',
  ';123456789012345\n(set-logic QF_UF)\n(check-sat)\n',
  '(set-logic QF_UF)\n(echo "aaaaaaa\\" ) x")\n(check-sat)\n',
  '(set-logic QF_UF)(declare-fun p () Bool)(assert\n (and p\n  p))(check-sat)(exit)\n(check-sat)\n',
]
def _run(exe, script, mode, chunk):
    if mode == 'file':
        d = tempfile.mkdtemp(prefix='osmt-c20.'); f = os.path.join(d, 's.smt2'); open(f, 'w').write(script)
        try:
            p = subprocess.run([exe, f], capture_output=True, timeout=60); return p.returncode, p.stdout
        finally: shutil.rmtree(d, ignore_errors=True)
    p = subprocess.Popen([exe, '-p'], stdin=subprocess.PIPE, stdout=subprocess.PIPE, stderr=subprocess.PIPE)
    data = script.encode()
    try:
        for k in range(0, len(data), chunk):
            p.stdin.write(data[k:k + chunk]); p.stdin.flush(); time.sleep(0.002)
        p.stdin.close()
    except BrokenPipeError: pass
    out = p.stdout.read(); p.wait(timeout=60); return p.returncode, out

_BUILD = {}
def _build():
    """the executable is built once per check run, in a scratch directory that is removed when the process exits"""
    import atexit
    if 'exe' in _BUILD: return _BUILD['exe']
    d = tempfile.mkdtemp(prefix='osmt-c20build.')
    atexit.register(lambda: shutil.rmtree(d, ignore_errors=True))
    cfg = ['cmake', '-S', vrun.REPO, '-B', d, '-G', 'Ninja', '-DCMAKE_BUILD_TYPE=Release', '-DFETCHCONTENT_FULLY_DISCONNECTED=ON', '-DFETCHCONTENT_SOURCE_DIR_GOOGLETEST=/usr/src/googletest', '-DPACKAGE_TESTS=OFF']
    c = subprocess.run(cfg, capture_output=True, text=True, timeout=600)
    if c.returncode != 0: _BUILD['exe'] = {'reproduced': False, 'error': 'configure failed: ' + c.stderr[-300:]}; return _BUILD['exe']
    c = subprocess.run(['cmake', '--build', d, '--target', 'OpenSMT-bin', '-j16'], capture_output=True, text=True, timeout=3000)
    exe = os.path.join(d, 'opensmt')
    if c.returncode != 0 or not os.path.exists(exe): _BUILD['exe'] = {'reproduced': False, 'error': 'build failed: ' + (c.stdout + c.stderr)[-400:]}; return _BUILD['exe']
    _BUILD['exe'] = exe
    return exe

def replay(r, o):
    """build the real executable from the current tree (scratch dir) and compare -p with file mode on a fixed corpus of
    scripts (escapes, comments, quoted symbols, comment lengths around the read sizes) under several chunkings"""
    exe = _build()
    if isinstance(exe, dict): return exe
    if True:
        scripts = list(CORPUS) + [';' + 'c' * n + '\n(set-logic QF_UF)\n(check-sat)\n' for n in range(0, 70)] \
                  + ['(set-logic QF_UF)\n(echo "' + 'a' * n + '\\" ) x")\n(check-sat)\n' for n in range(0, 40)]
        tried = 0
        for sc in scripts:
            want = _run(exe, sc, 'file', 0)
            for chunk in (1, 7, 15, 16, 1 << 20):
                got = _run(exe, sc, 'pipe', chunk); tried += 1
                if got != want:
                    return {'reproduced': True, 'input': sc, 'chunk_bytes': chunk, 'file_mode': [want[0], want[1].decode(errors='replace')[-300:]], 'pipe_mode': [got[0], got[1].decode(errors='replace')[-300:]],
                            'how': 'opensmt built from %s; same script as a file and through -p' % vrun.REPO, 'runs': tried}
        return {'reproduced': False, 'reason': 'pipe and file mode agree on the whole corpus (%d runs)' % tried}
