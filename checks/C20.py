"""C20 -- Pipe mode and file mode produce identical results (framing mechanism); shares its job with C18."""
import os
from vrun import Job, VERIF
Q = 'opensmt::Interpret::interpPipe'
def jobs(tier):
    return [Job('interpPipe.R', 'src/api/Interpret.cc', Q, tier='R', header='contracts/C20/pipe.h', pre_includes=(),
                stubs=('opensmt::Interpret::execute', 'opensmt::Interpret::notify_formatted', 'Smt2newContext__ctor__char_P', 'Smt2newContext__getRoot'),
                opaque=('opensmt::Interpret', 'opensmt::Smt2newContext', 'opensmt::ASTNode'), ghost_buffers={'buf': {Q}, 'buf_out': {Q}},
                loop_contracts=True, min_obligations=50, expected_wrap=(('Interpret__interpPipe', 'pointer relation:'), ('memchr', 'pointer relation:')), timeout=900, reach=('return', 'scan', 'copy', 'shift'),
                harness='void harness(void) { t_int r = Interpret__interpPipe((struct Interpret *)0); OSMT_REACH("return of interpPipe"); }\n',
                proves='framing flags == lexer start-condition automaton after every byte, for every input and chunking; index safety of both buffers')]
def info(tier, results):
    return {'level': 'proof', 'trusted_base': ['clang 14 AST', 'osmt2c lowering (ghost-size mode for buf and buf_out)', 'CBMC 6.11 dfcc + loop contracts'],
            'assumptions': [], 'explanation': ''}
