"""C25 -- Asynchronous stop never produces a wrong answer (partial: race-freedom of the request)."""
import os
from vrun import Job, VERIF

def J(name, tu, root, harness, **kw):
    return Job(name + '.R', tu, root, tier='R', header='contracts/C25/stop.h', harness=harness, enforce=False, pre_includes=('stubs/std_types.h',), min_obligations=2, **kw)

def jobs(tier):
    core = 'src/smtsolvers/CoreSMTSolver.cc'; gs = 'src/api/GlobalStop.cc'
    op = ('opensmt::CoreSMTSolver',)
    return [
      J('notifyStop', core, 'opensmt::CoreSMTSolver::notifyStop', '''void harness(void) { g_atomic_stores = 0;
  CoreSMTSolver__notifyStop((struct CoreSMTSolver *)0);
  __CPROVER_assert(g_atomic_stores == 1 && g_last_atomic_obj == (void *)&g_opaque_CoreSMTSolver_stopFlag, "the stop request is written by one atomic store to the solver's stop flag");
  __CPROVER_assert(sizeof(g_opaque_CoreSMTSolver_stopFlag) == sizeof(x_std_atomic_bool) && ((x_std_atomic_bool *)&g_opaque_CoreSMTSolver_stopFlag)->v == 1, "the flag is set");
  OSMT_REACH("return"); }\n''', opaque=op),
      J('stopped', core, 'opensmt::CoreSMTSolver::stopped', '''void harness(void) { g_atomic_loads = 0; t_bool f = nondet_bool(); ((x_std_atomic_bool *)&g_opaque_CoreSMTSolver_stopFlag)->v = f;
  t_bool r = CoreSMTSolver__stopped((struct CoreSMTSolver *)0);
  __CPROVER_assert(g_atomic_loads == 1 && g_last_atomic_obj == (void *)&g_opaque_CoreSMTSolver_stopFlag, "the stop flag is read by one atomic load");
  __CPROVER_assert(r == f, "stopped() returns the flag");
  OSMT_REACH("return"); }\n''', opaque=op),
      J('okContinue', core, 'opensmt::CoreSMTSolver::okContinue', '''t_bool globallyStopped(void) { return h_global; }
void harness(void) { g_atomic_loads = 0; t_bool f = nondet_bool(); h_global = nondet_bool(); ((x_std_atomic_bool *)&g_opaque_CoreSMTSolver_stopFlag)->v = f;
  t_bool r = CoreSMTSolver__okContinue((struct CoreSMTSolver *)0);
  __CPROVER_assert(r == (!f && !h_global), "search continues exactly while neither stop request is pending");
  __CPROVER_assert(g_atomic_loads <= 1, "the solver flag is read atomically");
  OSMT_REACH("return"); }\n''', opaque=op),
      J('notifyGlobalStop', gs, 'opensmt::notifyGlobalStop', '''void harness(void) { g_atomic_stores = 0;
  notifyGlobalStop();
  __CPROVER_assert(g_atomic_stores == 1 && g_last_atomic_obj == (void *)&g_anon___globalStopFlag, "the global stop request is written by one atomic store");
  __CPROVER_assert(((x_std_atomic_bool *)&g_anon___globalStopFlag)->v == 1, "the global flag is set");
  OSMT_REACH("return"); }\n'''),
      J('resetGlobalStop', gs, 'opensmt::resetGlobalStop', '''void harness(void) { g_atomic_stores = 0;
  resetGlobalStop();
  __CPROVER_assert(g_atomic_stores == 1 && g_last_atomic_obj == (void *)&g_anon___globalStopFlag && ((x_std_atomic_bool *)&g_anon___globalStopFlag)->v == 0, "the global flag is cleared by one atomic store");
  OSMT_REACH("return"); }\n'''),
      J('globallyStopped', gs, 'opensmt::globallyStopped', '''void harness(void) { g_atomic_loads = 0; t_bool f = nondet_bool(); ((x_std_atomic_bool *)&g_anon___globalStopFlag)->v = f;
  t_bool r = globallyStopped();
  __CPROVER_assert(g_atomic_loads == 1 && g_last_atomic_obj == (void *)&g_anon___globalStopFlag && r == f, "the global flag is read by one atomic load and returned");
  OSMT_REACH("return"); }\n'''),
      Job('checkTheory.R', 'src/smtsolvers/TheoryIF.cc', 'CoreSMTSolver__checkTheory__bool_int_R', tier='R', header='contracts/C25/theory.h', enforce=False, pre_includes=('stubs/std_types.h',),
          stubs=('opensmt::CoreSMTSolver::handleSat', 'opensmt::CoreSMTSolver::handleUnsat', 'opensmt::THandler::assertLits', 'opensmt::THandler::check', 'opensmt::CoreSMTSolver::okContinue',
                 'opensmt::CoreSMTSolver::stopped'), opaque=('opensmt::CoreSMTSolver', 'opensmt::THandler', 'opensmt::SMTConfig'), min_obligations=3,
          # statistics counters and unconstrained configuration doubles of the opaque solver object
          expected_wrap=(('CoreSMTSolver__checkTheory__bool_int_R', 'in g_opaque_CoreSMTSolver_skipped_calls + 1l'), ('CoreSMTSolver__checkTheory__bool_int_R', 'in g_opaque_CoreSMTSolver_conflicts + 1ul'),
                         ('CoreSMTSolver__checkTheory__bool_int_R', 'in *conflictC + 1'), ('CoreSMTSolver__checkTheory__bool_int_R', 'g_opaque_SMTConfig_sat_initial_skip_step')),
          harness='''void harness(void) { h_stop = nondet_bool(); g_asserted = 0; g_checked = 0; h_sat_result = nondet_int(); t_bool complete = nondet_bool(); t_int cc = 0;
  t_int r = CoreSMTSolver__checkTheory__bool_int_R((struct CoreSMTSolver *)0, complete, &cc);
  if (complete && r == E_TPropRes_Decide)
    __CPROVER_assert(g_asserted && g_checked && g_checked_complete && g_tres != E_TRes_UNSAT, "a complete theory check answers 'consistent' only after the theory solvers were consulted on the trail (whether or not a stop is pending)");
  OSMT_REACH("return"); }\n''',
          proves='a pending stop request cannot bypass the complete theory check'),
      Job('solve_.R', 'src/smtsolvers/CoreSMTSolver.cc', 'opensmt::CoreSMTSolver::solve_', tier='R', header='contracts/C25/solve.h', enforce=False, loop_contracts=True, pre_includes=('stubs/std_types.h',),
          stubs=('opensmt::CoreSMTSolver::addVar_', 'opensmt::CoreSMTSolver::declareVarsToTheories', 'opensmt::SMTConfig::dump_only', 'opensmt::SMTConfig::getRandomSeed', 'opensmt::CoreSMTSolver::dumpCNF', 'opensmt::CoreSMTSolver::nClauses',
                 'opensmt::SMTConfig::dryrun', 'opensmt::SMTConfig::verbosity', 'opensmt::CoreSMTSolver::search', 'opensmt::CoreSMTSolver::restartNextLimit', 'opensmt::CoreSMTSolver::nVars', 'opensmt::CoreSMTSolver::value', 'opensmt::CoreSMTSolver::nLearnts',
                 'opensmt::cpuTime', 'opensmt::memUsed', 'opensmt::CoreSMTSolver::notifyStop', 'opensmt::CoreSMTSolver::okContinue', 'vec_lbool__clear', 'vec_lbool__growTo__int', 'vec_lbool__op_index__int_68d9a7', 'vec_Lit__clear'),
          opaque=('opensmt::CoreSMTSolver', 'opensmt::SMTConfig'), min_obligations=5, timeout=900, object_bits=12,
          # floating-point statistics (restart limits, print-out thresholds) are not part of the property: the doubles are havocked by the loop contract, so float overflow / NaN checks are left out for this job
          checks=['--pointer-check', '--bounds-check', '--div-by-zero-check', '--signed-overflow-check', '--conversion-check', '--undefined-shift-check'],
          expected_wrap=(('CoreSMTSolver__solve__void', 'g_opaque_CoreSMTSolver_solves'), ('CoreSMTSolver__solve__void', 'type conversion'),),
          harness='''void harness(void) {
  h_nvars = nondet_int(); __CPROVER_assume(h_nvars >= 0 && h_nvars <= 1000000000);
  g_k = nondet_int(); __CPROVER_assume(g_k >= 0 && (h_nvars == 0 || g_k < h_nvars));
  h_vk.value = nondet_uchar() & 3; h_dump_only = nondet_bool();
  g_stop_seen = 0; g_searches = 0; g_last = 3; g_msz = nondet_int(); __CPROVER_assume(g_msz >= 0); __osmt_thrown = 0;
  g_opaque_CoreSMTSolver_assumptions.data = (struct Lit *)0; g_opaque_CoreSMTSolver_assumptions.sz = 0;
  t_bool ok0 = nondet_bool(); g_opaque_CoreSMTSolver_ok = ok0;
  struct lbool r = CoreSMTSolver__solve__void((struct CoreSMTSolver *)0);
  __CPROVER_assert(r.value <= 2, "the answer is sat, unsat or unknown");
  if (r.value == L_TRUE) {
    __CPROVER_assert(g_searches >= 1 && g_last == L_TRUE, "sat is answered only if the search answered sat");
    __CPROVER_assert(g_msz == h_nvars, "a sat answer comes with a model for every variable, whether or not a stop request arrived meanwhile");
    if (h_nvars > 0) __CPROVER_assert(g_mcell.value == h_vk.value, "the model holds the value of an arbitrary variable"); }
  if (r.value == L_FALSE) __CPROVER_assert(!ok0 || (g_searches >= 1 && g_last == L_FALSE), "unsat is answered only if the solver was inconsistent or the search answered unsat");
  if (r.value == L_UNDEF) __CPROVER_assert(h_dump_only || g_stop_seen, "unknown is answered only because a stop request was observed");
  OSMT_REACH("return"); }\n''',
          proves='a stop request can only turn the answer into unknown; a sat answer always carries its complete model'),
    ]

def info(tier, results):
    return {'level': 'proof', 'trusted_base': ['clang 14 AST', 'osmt2c lowering', 'CBMC 6.11'],
            'assumptions': ['std::atomic<bool> store/load are atomic and race-free (stub contract)'],
            'explanation': 'Every function that writes or reads a stop flag is lowered; the flag objects keep the type clang resolved for them (std::atomic<bool>), accesses become calls of the std::atomic stubs, and the obligations state that each request / poll is exactly one atomic operation on the right object and that the readers return the flag. A plain bool flag produces no stub call and fails the obligation. Concurrency itself is not modelled.'}
