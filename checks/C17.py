"""C17 -- Printed SMT-LIB reads back to the same object (partial: symbol names, Logic::protectName)."""
import os, re, json
from vrun import Job, VERIF

def lexer_keywords(sess):
    """keywords of the INITIAL start condition of smt2newlexer.ll (rules that precede TK_SYM), read on every run"""
    ll = open(os.path.join(sess.repo, 'src/parsers/smt2new/smt2newlexer.ll')).read()
    body = ll.split('%%')[1]
    kws = []
    for m in re.finditer(r'^"([^"\n]+)"\s*\{', body, re.M):
        if not m.group(1).startswith(':'): kws.append(m.group(1))
    if len(kws) < 20: raise RuntimeError('could not read the keyword rules of the lexer')
    return 'static const char *LEX_KW[] = { %s };\nstatic const int LEX_KW_n = %d;\n' % (', '.join(json.dumps(k) for k in kws), len(kws))

H_SYM = '''void harness(void) { char buf[OSMT_N + 1]; int n = 0;
  for (int k = 0; k < OSMT_N; k++) { buf[k] = nondet_char(); } buf[OSMT_N] = 0;
  n = slen(buf); __CPROVER_assume(n >= 1);
  /* what the lexer can hand over as a symbol name: no '|' and no backslash */
  for (int k = 0; k < OSMT_N; k++) __CPROVER_assume(buf[k] != '|' && buf[k] != '\\\\');
  struct osmt_string name; name.p = buf; name.n = (t_ulong)n;
  struct osmt_string out = Logic__protectName__std_string_R_bool((struct Logic *)0, &name, 0);
  __CPROVER_assert(lexes_to_symbol(&out, &name), "protectName(name) lexes back to exactly one symbol token with value name");
  OSMT_REACH("return");
}
'''
H_KW = '''void harness(void) {
  for (int k = 0; k < LEX_KW_n; k++) {
    struct osmt_string name; name.p = (t_char *)LEX_KW[k]; name.n = (t_ulong)slen(LEX_KW[k]);
    struct osmt_string out = Logic__protectName__std_string_R_bool((struct Logic *)0, &name, 0);
    __CPROVER_assert(lexes_to_symbol(&out, &name), "a symbol named like a lexer keyword is printed so that it lexes back as a symbol");
  }
  OSMT_REACH("return");
}
'''
def job(name, harness, N, **kw):
    return Job(name, 'src/logics/Logic.cc', 'Logic__protectName__std_string_R_bool', tier='R', header='contracts/C17/protect.h', harness=harness, enforce=False,
               pre_includes=('stubs/std_types.h',), opaque=('opensmt::Logic',), defines=('OSMT_N %d' % N,), default_unwind=128, gen_header=lexer_keywords,
               min_obligations=3, timeout=1800, object_bits=12, bounded_note=kw.pop('note'), **kw)
def alphabet_job(N):
    # longer names over a small alphabet that has one character of every class the quoting decision distinguishes: letter, digit, '-', '.', a character that is
    # legal in a simple symbol ('!'), one that is not ('#'), a space and a byte >= 0x80
    alpha = ["'a'", "'1'", "'-'", "'.'", "'!'", "'#'", "' '", "(char)-23", "0"]
    cond = ' || '.join('buf[k] == %s' % c for c in alpha)
    h = H_SYM.replace("for (int k = 0; k < OSMT_N; k++) __CPROVER_assume(buf[k] != '|' && buf[k] != '\\\\');", "for (int k = 0; k < OSMT_N; k++) __CPROVER_assume(%s);" % cond)
    assert h != H_SYM
    return job('protectName.alphabet.N%d' % N, h, N, note='exhaustive over all names of at most %d bytes over the alphabet {a 1 - . ! # space 0xE9}' % N, weight=10)
def jobs(tier):
    N = 4 if tier == 'quick' else 5
    if os.environ.get('C17_TRY_ALPHA'): return [alphabet_job(int(os.environ['C17_TRY_ALPHA']))]
    return [job('protectName.N%d' % N, H_SYM, N, note='exhaustive over all names of at most %d bytes without | and backslash' % N, weight=10),
            job('protectName.keywords', H_KW, 4, note='every keyword rule of smt2newlexer.ll'),
            alphabet_job(8 if tier == 'quick' else 12)]
def info(tier, results):
    return {'level': 'other' if all(r['tier']=='S' or r.get('bounded_note') for r in results) else 'proof', 'trusted_base': ['clang 14 AST', 'osmt2c lowering', 'CBMC 6.11'],
            'assumptions': ['std::string / std::unordered_set behave as the stubs of contracts/C17/protect.h', 'the reference recogniser in protect.h is a faithful reading of smt2newlexer.ll (keywords are re-read from the file on every run)'], 'explanation': ''}
