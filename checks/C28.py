"""C28 -- Equal terms share one identity and subterms come first (partial: Logic::mkFun over ghost hash-consing maps)."""
import os, re
from vrun import Job, VERIF
STUBS = ('opensmt::Logic::typeCheck', 'opensmt::Logic::termSort', 'opensmt::Logic::isBooleanOperator', 'opensmt::PtStore::hasCtermKey', 'opensmt::PtStore::getFromCtermMap', 'opensmt::PtStore::newTerm', 'opensmt::PtStore::addToCtermMap',
         'opensmt::PtStore::hasCplxKey', 'opensmt::PtStore::getFromCplxMap', 'opensmt::PtStore::addToCplxMap', 'opensmt::PtStore::hasBoolKey', 'opensmt::PtStore::getFromBoolMap', 'opensmt::PtStore::addToBoolMap',
         'opensmt::SymStore::operator[]', 'opensmt::Symbol::left_assoc', 'opensmt::Symbol::right_assoc', 'opensmt::Symbol::chainable', 'opensmt::Symbol::pairwise', 'opensmt::Symbol::nargs', 'opensmt::Symbol::commutes',
         'vec_PTRef__capacity__int')
H = '''static struct PTRef call(t_u32 s, t_int n, t_u32 a0, t_u32 a1) {
  struct vec_PTRef v; v.data = (struct PTRef *)0; v.sz = 0; v.cap = 0; vec_PTRef__capacity__int(&v, 2); v.data[0].x = a0; v.data[1].x = a1; v.sz = n;
  struct SymRef sy; sy.x = s; return Logic__mkFun((struct Logic *)0, sy, &v); }
void harness(void) {
  /* symbols: 0 a constant symbol; 1 a binary uninterpreted function; 2 a commutative, left-associative non-Boolean operator (like +); 3 a Boolean operator */
  h_sym[0].nargs = 0; h_sym[1].nargs = 2; h_sym[2].nargs = 2; h_sym[2].commutes = 1; h_sym[2].left_assoc = 1; h_sym[3].nargs = 2; h_sym[3].boolop = 1; h_sym[3].left_assoc = 1; h_sym[3].commutes = 1;
  /* three leaf terms exist already */
  g_nterms = 3; g_ntab = 0; for (int i = 0; i < 3; i++) { g_term[i].sym = 99; g_term[i].n = 0; }
  /* optionally one application was built before (through the same function): any of them */
  t_u32 s0 = nondet_uchar() & 3, p0 = nondet_uchar() % 3, q0 = nondet_uchar() % 3; if (nondet_bool()) call(s0, s0 == 0 ? 0 : 2, p0, q0);
  __CPROVER_assume(!__osmt_thrown);
  t_int before = g_nterms;
  t_u32 s1 = nondet_uchar() & 3, a1 = nondet_uchar() % 3, b1 = nondet_uchar() % 3; t_int n1 = s1 == 0 ? 0 : 2;
  t_u32 s2 = nondet_uchar() & 3, a2 = nondet_uchar() % 3, b2 = nondet_uchar() % 3; t_int n2 = s2 == 0 ? 0 : 2;
  struct PTRef r1 = call(s1, n1, a1, b1);
  __CPROVER_assert(!__osmt_thrown, "a well-formed application is accepted");
  t_int mid = g_nterms;
  struct PTRef r2 = call(s2, n2, a2, b2);
  __CPROVER_assert(r1.x < (t_u32)g_nterms && r2.x < (t_u32)g_nterms, "the result is a term of the store");
  __CPROVER_assert(mid <= before + 1 && g_nterms <= mid + 1, "at most one term is created per call");
  t_bool same = s1 == s2 && (n1 == 0 || (a1 == a2 && b1 == b2) || (h_sym[s1].commutes && !h_sym[s1].boolop && a1 == b2 && b1 == a2));
  t_bool differ = s1 != s2 || (n1 > 0 && !((a1 == a2 && b1 == b2) || (a1 == b2 && b1 == a2)));
  if (same) __CPROVER_assert(r1.x == r2.x, "building the same application twice (also with commuted arguments of a commutative symbol) yields the same term");
  if (differ) __CPROVER_assert(r1.x != r2.x, "structurally different applications are different terms");
  /* the term returned for an application has that application as its content (modulo the canonical argument order) */
  struct tcontent *c = &g_term[r2.x < NT ? r2.x : 0];
  __CPROVER_assert(c->sym == s2 && c->n == n2 && (n2 == 0 || (c->a[0] == a2 && c->a[1] == b2) || (h_sym[s2].commutes && c->a[0] == b2 && c->a[1] == a2)), "the returned term is the application of the symbol to the arguments");
  OSMT_REACH("return");
}
'''
H_IND = '''/* inductive in the history: an ARBITRARY consistent store (3 leaves, up to 3 applications, every application registered under its canonical key in the map of its
   symbol, keys pairwise different), then ONE call of mkFun */
static struct PTRef call(t_u32 s, t_int n, t_u32 a0, t_u32 a1) {
  struct vec_PTRef v; v.data = (struct PTRef *)0; v.sz = 0; v.cap = 0; vec_PTRef__capacity__int(&v, 2); v.data[0].x = a0; v.data[1].x = a1; v.sz = n;
  struct SymRef sy; sy.x = s; return Logic__mkFun((struct Logic *)0, sy, &v); }
static t_uchar map_of(t_u32 s) { return s == 0 ? MAP_CTERM : (h_sym[s].boolop ? MAP_BOOL : MAP_CPLX); }
void harness(void) {
  h_sym[0].nargs = 0; h_sym[1].nargs = 2; h_sym[2].nargs = 2; h_sym[2].commutes = 1; h_sym[2].left_assoc = 1; h_sym[3].nargs = 2; h_sym[3].boolop = 1; h_sym[3].left_assoc = 1; h_sym[3].commutes = 1;
  g_nterms = 3; g_ntab = 0; for (int i = 0; i < 3; i++) { g_term[i].sym = 99; g_term[i].n = 0; }
  int napp = nondet_uchar() % 4;
  for (int i = 0; i < 3; i++) if (i < napp) {
    t_u32 s = nondet_uchar() & 3; t_u32 a = nondet_uchar() % (3 + i), b = nondet_uchar() % (3 + i); t_int n = s == 0 ? 0 : 2; if (n == 0) { a = 0; b = 0; }
    if (n == 2 && h_sym[s].commutes && !h_sym[s].boolop) __CPROVER_assume(a <= b);           /* canonical argument order of a commutative non-Boolean symbol */
    t_u32 pk[3] = { a, b, 0 }; __CPROVER_assume(tab_find(map_of(s), s, n, pk) < 0);            /* keys pairwise different */
    struct tcontent *c = &g_term[g_nterms]; c->sym = s; c->n = n; c->a[0] = a; c->a[1] = b; c->a[2] = 0;
    struct kentry *e = &g_tab[g_ntab]; e->map = map_of(s); e->key = *c; e->term = (t_u32)g_nterms; g_nterms++; g_ntab++; }
  t_int before = g_nterms, tabbefore = g_ntab;
  t_u32 s1 = nondet_uchar() & 3, a1 = nondet_uchar() % (t_uchar)before, b1 = nondet_uchar() % (t_uchar)before; t_int n1 = s1 == 0 ? 0 : 2; if (n1 == 0) { a1 = 0; b1 = 0; }
  /* the canonical key of the request, and the term (if any) that already has it */
  t_u32 k0 = a1, k1 = b1; if (n1 == 2 && h_sym[s1].commutes && !h_sym[s1].boolop && k0 > k1) { k0 = b1; k1 = a1; }
  t_u32 key[3] = { k0, k1, 0 }; t_int found = tab_find(map_of(s1), s1, n1, key);
  struct PTRef r = call(s1, n1, a1, b1);
  __CPROVER_assert(!__osmt_thrown, "a well-formed application is accepted");
  if (found >= 0) { __CPROVER_assert(r.x == g_tab[found].term && g_nterms == before && g_ntab == tabbefore, "an application that exists is returned as it is: no new term, no new map entry"); }
  else { __CPROVER_assert(r.x == (t_u32)before && g_nterms == before + 1 && g_ntab == tabbefore + 1, "an application that does not exist yet becomes exactly one new term (the newest) with one map entry");
         t_int where = tab_find(map_of(s1), s1, n1, key); __CPROVER_assert(where >= 0 && g_tab[where >= 0 ? where : 0].term == r.x, "the new term is registered in the map of its symbol under the canonical key"); }
  struct tcontent *c = &g_term[r.x < NT ? r.x : 0];
  __CPROVER_assert(same_content(c, s1, n1, key), "the returned term is the application of the symbol to the arguments (canonical order)");
  OSMT_REACH("return");
}
'''
def jobs(tier):
    return [Job('mkFun.R', 'src/logics/Logic.cc', 'opensmt::Logic::mkFun', tier='R', header='contracts/C28/hashcons.h', harness=H, enforce=False, pre_includes=('stubs/gmp_types.h', 'stubs/std_types.h'),
                stubs=STUBS, opaque=('opensmt::Logic', 'opensmt::PtStore', 'opensmt::SymStore', 'opensmt::Symbol'), unwindset=('tab_find.0:11',), default_unwind=5, min_obligations=5, object_bits=12,
                bounded_note='sequences of at most three applications over four symbols and three existing terms',
                proves='mkFun returns the existing term for an application that was built before and a new, newer term otherwise'),
            Job('mkFun_invariant.R', 'src/logics/Logic.cc', 'opensmt::Logic::mkFun', tier='R', header='contracts/C28/hashcons.h', harness=H_IND, enforce=False, pre_includes=('stubs/gmp_types.h', 'stubs/std_types.h'),
                stubs=STUBS, opaque=('opensmt::Logic', 'opensmt::PtStore', 'opensmt::SymStore', 'opensmt::Symbol'), unwindset=('tab_find.0:11',), default_unwind=5, min_obligations=5, object_bits=12,
                bounded_note='inductive in the history: any consistent store with at most 3 applications over 3 leaves, then one call',
                proves='from any consistent store, mkFun returns the existing term iff the canonical key exists, otherwise creates exactly one newest term and registers it under that key')]
def info(tier, results):
    return {'level': 'other', 'trusted_base': ['clang 14 AST', 'osmt2c lowering', 'CBMC 6.11'],
            'assumptions': ['PtStore::hasXKey/getFromXMap/addToXMap behave as maps from (symbol, argument list) to terms; PtStore::newTerm creates the next term id with the given content (stubs of contracts/C28/hashcons.h)',
                            'Logic::termSort puts the arguments into one canonical order; Logic::typeCheck accepts the application',
                            'applications of 0 or 2 arguments over three existing terms and four symbols (constant, uninterpreted, commutative non-Boolean, Boolean operator); at most one earlier application'],
            'explanation': 'Logic::mkFun lowered from Logic.cc; two (optionally three) calls in sequence over a ghost store; the obligations are identity of equal applications, distinctness of different ones, and newer-than-arguments for created terms.'}
