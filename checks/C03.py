"""C03 -- Models produced after sat satisfy every current assertion (partial: the concrete delta of LRA models)."""
import os, re
from vrun import Job, VERIF
import checks.C15 as C15
H = '''/* the "alphabet" of model values: a few rationals with different signs, magnitudes and denominators */
static void mk_q(struct FastRational *x) { static const t_word NUM[8] = { 0, 1, -1, 2, -3, 1, -1, 7 }; static const t_uword DEN[8] = { 1, 1, 1, 1, 1, 2, 3, 4 };
  t_uchar k = nondet_uchar() & 7; x->state = 1; x->num = NUM[k]; x->den = DEN[k]; x->mpq = (mpq_ptr)0; }
static void mk_int(struct FastRational *x, t_word v) { x->state = 1; x->num = v; x->den = 1; x->mpq = (mpq_ptr)0; }
/* (c1,k1) <= (c2,k2) in Q_delta, lexicographically */
static t_bool dle(struct Delta *a, struct Delta *b) {
  big l = QN(&a->r) * QD(&b->r), r = QN(&b->r) * QD(&a->r);
  if (l != r) return l < r;
  return QN(&a->d) * QD(&b->d) <= QN(&b->d) * QD(&a->d); }
/* sign of  (val.R + delta*val.D) - c   for delta = en/ed, scaled by positive denominators */
static big gap(struct Delta *val, big en, big ed, struct FastRational *c) {
  big rn = QN(&val->r), rd = QD(&val->r), dn = QN(&val->d), dd = QD(&val->d), cn = QN(c), cd = QD(c);
  return (rn * ed * dd + en * dn * rd) * cd - cn * rd * ed * dd; }
void harness(void) {
  t_int n0 = nondet_uchar(); h_nv = n0; __CPROVER_assume(h_nv >= 0 && h_nv <= NV);
  for (int k = 0; k < NV; k++) {
    h_v[k].x = (t_u32)k; mk_q(&h_val[k].r); mk_q(&h_val[k].d); mk_q(&h_lb[k].r); mk_q(&h_ub[k].r);
    mk_int(&h_lb[k].d, nondet_bool() ? 1 : 0); mk_int(&h_ub[k].d, nondet_bool() ? -1 : 0);      /* strict bounds carry +1 / -1 */
    h_haslb[k] = nondet_bool(); h_hasub[k] = nondet_bool();
    if (h_haslb[k]) __CPROVER_assume(dle(&h_lb[k], &h_val[k]));      /* Simplex invariant: the model is inside its bounds in Q_delta */
    if (h_hasub[k]) __CPROVER_assume(dle(&h_val[k], &h_ub[k])); }
  struct FastRational r = Simplex__computeDelta((struct Simplex *)0);
  __CPROVER_assert(FR_WORD(&r) && r.den >= 1, "delta is a well-formed rational");
  big en = QN(&r), ed = QD(&r);
  __CPROVER_assert(en > 0, "delta is positive");
  for (int k = 0; k < NV; k++) if (k < h_nv) {
    if (h_haslb[k]) { big g = gap(&h_val[k], en, ed, &h_lb[k].r);
      __CPROVER_assert(h_lb[k].d.num == 0 ? g >= 0 : g > 0, "the concrete value satisfies the lower bound (strictly, for a strict bound)"); }
    if (h_hasub[k]) { big g = gap(&h_val[k], en, ed, &h_ub[k].r);
      __CPROVER_assert(h_ub[k].d.num == 0 ? g <= 0 : g < 0, "the concrete value satisfies the upper bound (strictly, for a strict bound)"); } }
  OSMT_REACH("return");
}
'''
def djob(NV):
    return Job('computeDelta.R.V%d' % NV, 'src/tsolvers/lasolver/Simplex.cc', 'opensmt::Simplex::computeDelta', tier='R', header='contracts/C03/delta.h', harness=H, enforce=False, aux_tu=C15.TU,
                pre_includes=('stubs/gmp_types.h', 'stubs/std_types.h', 'contracts/C03/types.h'),
                stubs=C15.POOL_STUBS + ('opensmt::Simplex::isModelOutOfBounds', 'opensmt::LRAModel::read', 'opensmt::LRAModel::hasLBound', 'opensmt::LRAModel::hasUBound', 'opensmt::LRAModel::Lb', 'opensmt::LRAModel::Ub', 'opensmt::LABoundStore::getVarStore',
                                         'opensmt::subtraction', 'opensmt::division', 'opensmt::FastRational::compare', 'opensmt::FastRational::operator=='),
                opaque=('opensmt::Simplex', 'opensmt::LRAModel', 'opensmt::Tableau', 'opensmt::LABoundStore', 'opensmt::LAVarStore'), defines=('NV %d' % NV,),
                unwindset=('fr_spec.0:25',), default_unwind=6, min_obligations=5, timeout=1800, object_bits=12, weight=30, expected_wrap=C15.WRAP,
                bounded_note='at most %d variables, each with any combination of strict / non-strict lower and upper bound; model values and bound constants drawn from 8 rationals (0, 1, -1, 2, -3, 1/2, -1/3, 7/4)' % NV,
                proves='the concrete delta keeps every variable inside its original (strict or non-strict) bounds')
def jobs(tier):
    if os.environ.get('C03_NV'): return [djob(int(os.environ['C03_NV']))]
    return [djob(1)]        # two variables: see DESIGN 3 C03 for the timing
def info(tier, results):
    return {'level': 'other', 'trusted_base': ['clang 14 AST', 'osmt2c lowering', 'CBMC 6.11'],
            'assumptions': ['the model is inside its bounds in Q_delta when computeDelta is called (Simplex invariant; precondition)', 'LRAModel::read/Lb/Ub/hasLBound/hasUBound and the variable store iterate and answer as the stubs of contracts/C03/delta.h',
                            'strict bounds carry delta coefficient +1 (lower) / -1 (upper), non-strict ones 0', 'FastRational subtraction, division, comparison and equality return the exact rational result (their contracts, discharged on the real code under C15)'], 'explanation': ''}
