"""C26 -- Arithmetic conflicts carry valid Farkas certificates (row-based explanation)."""
import os, re
from vrun import Job, VERIF
import checks.C15 as C15
H = '''static wide sgn_of(t_u32 b) { return (b & 1) ? 1 : -1; }   /* upper bound  z - u <= 0 : +z ;  lower bound  l - z <= 0 : -z */
void harness(void) {
  h_x.x = nondet_uchar(); __CPROVER_assume(h_x.x < 100);
  t_int n0; h_n = n0; __CPROVER_assume(h_n >= 0 && h_n <= NV);
  wide an[NV], ad[NV];
  for (int k = 0; k < NV; k++) { struct PolynomialT_LVRef___Term *t = h_term(k); t->var.x = nondet_uchar(); __CPROVER_assume(t->var.x < 100 && t->var.x != h_x.x);
    s_make(&t->coeff); an[k] = VN(&t->coeff); ad[k] = VD(&t->coeff); __CPROVER_assume(an[k] != 0); }
  __CPROVER_assume(h_t0.var.x != h_t1.var.x && h_t0.var.x != h_t2.var.x && h_t1.var.x != h_t2.var.x);
  t_bool lower = nondet_bool();
  g_vecs = 0; g_bound_reads = 0;
  x_std_vector_Simplex__ExplTerm r = Simplex__getConflictingBounds((struct Simplex *)0, h_x, lower);
  __CPROVER_assert(r.sz == h_n + 1, "the explanation has one entry for the violated bound of x and one per term of its row, nothing else");
  __CPROVER_assert(g_e0.boundref.x == BREF(h_x.x, !lower), "first entry: the violated bound of x (its lower bound iff the conflict is on the lower bound)");
  s_check(&g_e0.coeff, "e0"); __CPROVER_assert(VN(&g_e0.coeff) == 1 && VD(&g_e0.coeff) == 1, "the violated bound has coefficient 1");
  wide s0 = sgn_of(g_e0.boundref.x);
  for (int k = 0; k < NV; k++) if (k < h_n) {
    struct Simplex__ExplTerm *e = g_e(k + 1); s_check(&e->coeff, "e");
    wide ln = VN(&e->coeff), ld = VD(&e->coeff);
    __CPROVER_assert((e->boundref.x >> 1) == h_term(k)->var.x, "entry k+1 names a bound of the k-th row variable");
    __CPROVER_assert(ln > 0 && ld > 0, "Farkas coefficients are positive");
    /* x = sum a_k y_k: the y_k part of  1*s0*x + lambda_k*s_k*y_k  must vanish */
    __CPROVER_assert(s0 * an[k] * ld + sgn_of(e->boundref.x) * ln * ad[k] == 0, "the weighted sum of the bounds cancels the row variable");
  }
  OSMT_REACH("return");
}
'''
H_PIV = '''void harness(void) {
  h_x.x = nondet_uchar(); __CPROVER_assume(h_x.x < 100);
  t_int n0; h_n = n0; __CPROVER_assume(h_n >= 0 && h_n <= NV);
  t_int an[NV];
  for (int k = 0; k < NV; k++) { struct PolynomialT_LVRef___Term *t = h_term(k); t->var.x = nondet_u32(); __CPROVER_assume(t->var.x < E_UNDEF && t->var.x != h_x.x);   /* variable ids are indices below LVRef::Undef */
    r_make(&t->coeff, &h_q[k]); an[k] = FR_SIGN(&t->coeff); __CPROVER_assume(an[k] != 0); h_under[k] = nondet_bool(); h_over[k] = nondet_bool(); }
  __CPROVER_assume(h_t0.var.x != h_t1.var.x && h_t0.var.x != h_t2.var.x && h_t1.var.x != h_t2.var.x);
  h_lower = nondet_bool();
  struct LVRef r = PIVOT_FN((struct Simplex *)0, h_x);
  __CPROVER_assert(!__osmt_thrown, "a basic variable that is out of bounds is handled");
  t_bool any = 0, hit = 0;
  for (int k = 0; k < NV; k++) if (k < h_n) {
    /* x below its lower bound must grow: a_k > 0 needs room under y_k's upper bound, a_k < 0 room over its lower bound; mirrored for the upper bound */
    t_bool elig = h_lower ? ((an[k] > 0 && h_under[k]) || (an[k] < 0 && h_over[k])) : ((an[k] < 0 && h_under[k]) || (an[k] > 0 && h_over[k]));
    if (elig) any = 1;
    if (elig && r.x == h_term(k)->var.x) hit = 1;
  }
  __CPROVER_assert((r.x == E_UNDEF) == !any, "no pivot variable is reported exactly when every row variable sits at the bound that blocks x (this is what makes the explanation's constant inequality false)");
  __CPROVER_assert(r.x == E_UNDEF || hit, "a reported pivot variable is a row variable with room in the helpful direction");
  OSMT_REACH("return");
}
'''
PIV_STUBS = ('opensmt::Simplex::isModelOutOfLowerBound', 'opensmt::Simplex::isModelOutOfUpperBound', 'opensmt::Simplex::isModelStrictlyUnderUpperBound', 'opensmt::Simplex::isModelStrictlyOverLowerBound',
             'opensmt::Tableau::isNonBasic', 'opensmt::Tableau::isBasic', 'opensmt::Tableau::getColumn')
def piv_job(name, root):
    return Job(name + '.R', 'src/tsolvers/lasolver/Simplex.cc', root, tier='R', header='contracts/C26/farkas.h', pre_includes=('stubs/gmp_types.h', 'stubs/std_types.h', 'contracts/C26/types.h'),
               harness=H_PIV.replace('PIVOT_FN', 'Simplex__' + name), enforce=False, aux_tu=C15.TU, stubs=C15.POOL_STUBS + PIV_STUBS, opaque=('opensmt::Simplex', 'opensmt::LRAModel', 'opensmt::Tableau', 'opensmt::LABoundStore'),
               defines=('C26_PIVOT', 'C26_R'), default_unwind=5, min_obligations=5, timeout=1200, object_bits=12,
               bounded_note='rows of at most 3 terms (the row loop is unwound); coefficients and variable ids at real width',
               proves='the conflict is reported only when no row variable can move: with the row equation the weighted sum of the named bounds is a false constant inequality')
H_AB = '''void harness(void) {
  h_ref.x = nondet_u32(); h_bound.var.x = nondet_u32(); __CPROVER_assume(h_bound.var.x < (t_u32)OSMT_LIM_INT32_MAX);
  t_bool upper = nondet_bool(); h_bound.type = upper ? 1 : 0;   /* bound_u = 1, bound_l = 0 (g_bound_u / g_bound_l come from the AST) */
  __CPROVER_assert(g_bound_u.t == 1 && g_bound_l.t == 0, "harness encodes the bound kinds as the source does");
  h_unsat = nondet_bool(); g_pushed = 0; g_act = 0; g_vecs = 0;
  x_std_vector_Simplex__ExplTerm r = Simplex__assertBound((struct Simplex *)0, h_ref);
  if (!h_unsat) __CPROVER_assert(r.sz == 0, "no conflict is reported for a bound that is not trivially unsatisfied");
  else {
    __CPROVER_assert(r.sz == 2, "a bound conflict is explained by exactly two bounds");
    __CPROVER_assert(FR_WORD(&g_e0.coeff) && g_e0.coeff.num == 1 && g_e0.coeff.den == 1 && FR_WORD(&g_e1.coeff) && g_e1.coeff.num == 1 && g_e1.coeff.den == 1, "both Farkas coefficients are 1 (positive)");
    t_u32 opp = BREF(h_bound.var.x, !upper);
    __CPROVER_assert((g_e0.boundref.x == opp && g_e1.boundref.x == h_ref.x) || (g_e1.boundref.x == opp && g_e0.boundref.x == h_ref.x),
                     "the two bounds are the asserted bound and the active bound of the opposite kind on the same variable: +z and -z cancel");
    __CPROVER_assert(g_pushed == 0, "a contradicted bound is not pushed into the model");
  }
#ifdef C22_ACTIVATION
  /* LASolver::assertLit records a decision exactly when no conflict is reported, and popBacktrackPoints calls boundDeactivated once per recorded decision */
  __CPROVER_assert(g_act == (h_unsat ? 0 : 1), "the count of active bounds of the variable is raised exactly when the bound is accepted, so that retracting the literal restores it");
#endif
  OSMT_REACH("return");
}
'''
AB_STUBS = ('opensmt::LABoundStore::operator[]', 'opensmt::LRAModel::isUnbounded', 'opensmt::LRAModel::boundTriviallyUnsatisfied', 'opensmt::LRAModel::boundTriviallySatisfied', 'opensmt::LRAModel::pushBound',
            'opensmt::Simplex::boundActivated')
def ab_job(extra_defines=()):
    return Job('assertBound.R', 'src/tsolvers/lasolver/Simplex.cc', 'opensmt::Simplex::assertBound', tier='R', header='contracts/C26/farkas.h', pre_includes=('stubs/gmp_types.h', 'stubs/std_types.h', 'contracts/C26/types.h'),
               harness=H_AB, enforce=False, aux_tu=C15.TU, stubs=C15.POOL_STUBS + AB_STUBS, opaque=('opensmt::Simplex', 'opensmt::LRAModel', 'opensmt::Tableau', 'opensmt::LABoundStore'),
               defines=('C26_ASSERT', 'C26_R') + tuple(extra_defines), default_unwind=5, min_obligations=5, timeout=1200, object_bits=12,
               proves='a bound that contradicts the opposite active bound of the same variable is explained by exactly these two bounds with coefficients 1')
H_SE = '''void harness(void) {
  t_int n0; h_n = n0; __CPROVER_assume(h_n >= 0 && h_n <= NV);
  for (int k = 0; k < NV; k++) { h_in[k].boundref.x = nondet_u32(); r_make(&h_in[k].coeff, &h_q[k]); }
  t_int s0, s1; g_lits = s0; g_coeffs = s1; __CPROVER_assume(s0 >= 0 && s0 <= NV && s1 >= 0 && s1 <= NV);   /* the previous conflict's explanation is still stored */
  x_std_vector_Simplex__ExplTerm in; in.sz = h_n; in.live = 1;
  LASolver__storeExplanation((struct LASolver *)0, &in);
  __CPROVER_assert(g_lits == h_n && g_coeffs == h_n, "explanation literals and coefficients both have exactly one entry per Simplex explanation entry (nothing stale is kept)");
  for (int k = 0; k < NV; k++) if (k < h_n) {
    __CPROVER_assert(g_lit[k].tr.x == ASGN_TR(h_in[k].boundref.x) && g_lit[k].sgn.value == (h_in[k].boundref.x & 1), "the k-th literal is the literal of the k-th bound");
    __CPROVER_assert(g_cf[k].state == h_in[k].coeff.state && g_cf[k].num == h_in[k].coeff.num && g_cf[k].den == h_in[k].coeff.den && g_cf[k].mpq == h_in[k].coeff.mpq, "the k-th coefficient is the coefficient of the k-th bound");
  }
  OSMT_REACH("return");
}
'''
SE_STUBS = ('opensmt::LASolver::getAsgnByBound', 'vec_PtAsgn__clear', 'vec_PtAsgn__push__PtAsgn_R')
def se_job():
    return Job('storeExplanation.R', 'src/tsolvers/lasolver/LASolver.cc', 'opensmt::LASolver::storeExplanation', tier='R', header='contracts/C26/farkas.h', pre_includes=('stubs/gmp_types.h', 'stubs/std_types.h', 'contracts/C26/types.h'),
               harness=H_SE, enforce=False, aux_tu=C15.TU, stubs=C15.POOL_STUBS + SE_STUBS, opaque=('opensmt::LASolver', 'opensmt::TSolver', 'opensmt::Simplex', 'opensmt::LRAModel', 'opensmt::Tableau', 'opensmt::LABoundStore'),
               defines=('C26_STORE', 'C26_R'), default_unwind=5, min_obligations=5, timeout=1200, object_bits=12,
               bounded_note='explanations of at most 3 entries (the copy loop is unwound)',
               proves='the literals and coefficients handed to interpolation are, entry by entry, the bounds and coefficients of the Simplex explanation')
def expl_job(W):
    return Job('getConflictingBounds.S%d' % W, 'src/tsolvers/lasolver/Simplex.cc', 'opensmt::Simplex::getConflictingBounds', tier='S', width=W, header='contracts/C26/farkas.h', pre_includes=('stubs/gmp_types.h', 'stubs/std_types.h', 'contracts/C26/types.h'), harness=H,
                enforce=False, aux_tu=C15.TU, stubs=C15.POOL_STUBS, opaque=('opensmt::Simplex', 'opensmt::LRAModel', 'opensmt::Tableau', 'opensmt::LABoundStore'),
                defines=('OSMT_GMP_EXACT', 'OSMT_CHECK_WF_ASSERTS', 'C26_EXPL'),
                expected_wrap=(('absVal__word', 'type conversion'), ('absVal__lword', 'type conversion'), ('absVal__word', 'unary minus'), ('absVal__lword', 'unary minus')), unwindset=C15.S_UNWIND(W) + ('sp_coprime.0:56',), default_unwind=8, min_obligations=5, timeout=1200, object_bits=12,
                bounded_note='rows of at most 3 terms with pairwise different variables; every coefficient representable at word width %d, GMP-held coefficients through the exact scaled GMP model' % W,
                proves='the row-based explanation has positive coefficients and its weighted sum cancels every row variable against the violated bound of the basic variable')
H_UNB = '''void harness(void) {
  h_x.x = nondet_u32(); __CPROVER_assume(h_x.x < 0x40000000u);
  h_n = nondet_int(); __CPROVER_assume(h_n >= 0 && h_n <= 1000000000);
  g_k = nondet_int(); __CPROVER_assume(g_k >= 0 && g_k < h_n);
  wf_term(&h_cell);
  t_bool lower = nondet_bool(); g_sz = 0;
  x_std_vector_Simplex__ExplTerm r = Simplex__getConflictingBounds((struct Simplex *)0, h_x, lower);
  __CPROVER_assert(g_sz == h_n + 1, "the explanation has one entry for the violated bound of x and one per term of its row, for a row of any length");
  __CPROVER_assert(g_e0.boundref.x == BREF(h_x.x, !lower) && FR_WORD(&g_e0.coeff) && g_e0.coeff.num == 1 && g_e0.coeff.den == 1, "first entry: the violated bound of x with coefficient 1");
  if (h_n > 0) __CPROVER_assert(CELL_OK(lower), "the entry of an arbitrary row term names a bound of that variable, with the positive coefficient |a| and the bound kind that cancels the variable");
  OSMT_REACH("return");
}
'''
def unb_job():
    return Job('getConflictingBounds.unbounded.R', 'src/tsolvers/lasolver/Simplex.cc', 'opensmt::Simplex::getConflictingBounds', tier='R', header='contracts/C26/farkas_unb.h', pre_includes=('stubs/gmp_types.h', 'stubs/std_types.h', 'contracts/C26/types.h'),
               harness=H_UNB, enforce=False, loop_contracts=True, stubs=('opensmt::FastRational::isZero', 'opensmt::isNegative', 'FastRational__op_minus__void', 'FastRational__ctor__FastRational_R', 'FastRational__ctor__word'),
               opaque=('opensmt::Simplex', 'opensmt::LRAModel', 'opensmt::Tableau', 'opensmt::LABoundStore'), min_obligations=5, timeout=1200, object_bits=12,
               proves='for a row of ANY length: the explanation entry of every row term is a bound of that variable with coefficient |a| > 0 and the bound kind that cancels it (machine-word coefficients)')
H_SE_UNB = '''void harness(void) {
  h_n = nondet_int(); __CPROVER_assume(h_n >= 0 && h_n <= 1000000000);
  g_k = nondet_int(); __CPROVER_assume(g_k >= 0 && g_k < h_n);
  h_cell.boundref.x = nondet_u32(); r_make(&h_cell.coeff, &h_q[0]);
  g_lits = nondet_int(); g_coeffs = nondet_int(); __CPROVER_assume(g_lits >= 0 && g_coeffs >= 0);   /* the previous conflict's explanation is still stored */
  x_std_vector_Simplex__ExplTerm in; in.sz = 0; in.live = 1;
  LASolver__storeExplanation((struct LASolver *)0, &in);
  __CPROVER_assert(g_lits == h_n && g_coeffs == h_n, "literals and coefficients both have exactly one entry per Simplex explanation entry, for an explanation of any length");
  if (h_n > 0) __CPROVER_assert(CELL_STORED, "an arbitrary entry: the literal is the literal of that bound and the coefficient is that bound's coefficient");
  OSMT_REACH("return");
}
'''
def se_unb_job():
    return Job('storeExplanation.unbounded.R', 'src/tsolvers/lasolver/LASolver.cc', 'opensmt::LASolver::storeExplanation', tier='R', header='contracts/C26/farkas.h', pre_includes=('stubs/gmp_types.h', 'stubs/std_types.h', 'contracts/C26/types.h'),
               harness=H_SE_UNB, enforce=False, loop_contracts=True, aux_tu=C15.TU, stubs=C15.POOL_STUBS + SE_STUBS, opaque=('opensmt::LASolver', 'opensmt::TSolver', 'opensmt::Simplex', 'opensmt::LRAModel', 'opensmt::Tableau', 'opensmt::LABoundStore'),
               defines=('C26_STORE_UNB', 'C26_R'), min_obligations=5, timeout=1200, object_bits=12,
               proves='for an explanation of ANY length: literals and coefficients are stored entry by entry')
H_PIV_UNB = '''void harness(void) {
  h_x.x = nondet_u32(); __CPROVER_assume(h_x.x < E_UNDEF);
  h_n = nondet_int(); __CPROVER_assume(h_n >= 0 && h_n <= 1000000000);
  g_k = nondet_int(); __CPROVER_assume(g_k >= 0 && g_k < h_n);
  wf_term(&h_cell); h_cell_under = nondet_bool(); h_cell_over = nondet_bool(); h_lower = nondet_bool();
  g_ok = 0; g_prev_found = E_UNDEF; __osmt_thrown = 0;
  struct LVRef r = Simplex__findNonBasicForPivotByBland((struct Simplex *)0, h_x);
  __CPROVER_assert(!__osmt_thrown, "a basic variable that is out of bounds is handled");
  if (h_n > 0 && CELL_ELIG) __CPROVER_assert(r.x != E_UNDEF, "if an arbitrary row term has room in the helpful direction, a pivot variable is reported: a conflict is reported only when no row variable can move, for a row of any length");
  if (r.x != E_UNDEF) __CPROVER_assert(g_ok, "a reported pivot variable was taken from a row term with room in the helpful direction");
  OSMT_REACH("return");
}
'''
def piv_unb_job(fn='findNonBasicForPivotByBland'):
    return Job(fn + '.unbounded.R', 'src/tsolvers/lasolver/Simplex.cc', 'opensmt::Simplex::' + fn, tier='R', header='contracts/C26/pivot_unb.h', defines=(('C26_HEUR',) if 'Heuristic' in fn else ()),
               pre_includes=('stubs/gmp_types.h', 'stubs/std_types.h', 'contracts/C26/types.h'), harness=H_PIV_UNB.replace('Simplex__findNonBasicForPivotByBland', 'Simplex__' + fn), enforce=False, loop_contracts=True, aux_tu=C15.TU,
               stubs=C15.POOL_STUBS + PIV_STUBS + ('opensmt::isPositive',), opaque=('opensmt::Simplex', 'opensmt::LRAModel', 'opensmt::Tableau', 'opensmt::LABoundStore'), min_obligations=5, timeout=1200, object_bits=12, expected_wrap=C15.WRAP,
               proves='for a row of ANY length: pivot selection reports no variable exactly when no row term has room in the helpful direction')
H_PRED = '''static void mk_q(struct FastRational *x) { static const t_word NUM[8] = { 0, 1, -1, 2, -3, 1, -1, 7 }; static const t_uword DEN[8] = { 1, 1, 1, 1, 1, 2, 3, 4 };
  t_uchar k = nondet_uchar() & 7; x->state = 1; x->num = NUM[k]; x->den = DEN[k]; x->mpq = (mpq_ptr)0; }
static void mk_d(struct Delta *d) { mk_q(&d->r); mk_q(&d->d); }
void harness(void) {
  mk_d(&h_val); mk_d(&h_lbd); mk_d(&h_ubd); h_haslb = nondet_bool(); h_hasub = nondet_bool();
  struct LVRef v; v.x = 3;
  t_bool under = Simplex__isModelStrictlyUnderUpperBound((struct Simplex *)0, v), over = Simplex__isModelStrictlyOverLowerBound((struct Simplex *)0, v);
  t_bool outU = Simplex__isModelOutOfUpperBound((struct Simplex *)0, v), outL = Simplex__isModelOutOfLowerBound((struct Simplex *)0, v);
  __CPROVER_assert(under == (!h_hasub || d_cmp(&h_val, &h_ubd) < 0), "strictly under the upper bound: no upper bound, or value < bound in Q_delta (the infinitesimal part counts)");
  __CPROVER_assert(over == (!h_haslb || d_cmp(&h_val, &h_lbd) > 0), "strictly over the lower bound: no lower bound, or value > bound in Q_delta (the infinitesimal part counts)");
  __CPROVER_assert(outU == (h_hasub && d_cmp(&h_val, &h_ubd) > 0), "out of the upper bound: there is one and value > bound in Q_delta");
  __CPROVER_assert(outL == (h_haslb && d_cmp(&h_val, &h_lbd) < 0), "out of the lower bound: there is one and value < bound in Q_delta");
  OSMT_REACH("return");
}
'''
def pred_job():
    return Job('modelPredicates.R', 'src/tsolvers/lasolver/Simplex.cc', 'opensmt::Simplex::isModelStrictlyUnderUpperBound', tier='R', header='contracts/C26/predicates.h', harness=H_PRED, enforce=False, aux_tu=C15.TU,
               extra_roots=('opensmt::Simplex::isModelStrictlyOverLowerBound', 'opensmt::Simplex::isModelOutOfUpperBound', 'opensmt::Simplex::isModelOutOfLowerBound'),
               pre_includes=('stubs/gmp_types.h', 'stubs/std_types.h', 'contracts/C26/types.h'),
               stubs=C15.POOL_STUBS + ('opensmt::LRAModel::read', 'opensmt::LRAModel::hasLBound', 'opensmt::LRAModel::hasUBound', 'opensmt::LRAModel::Lb', 'opensmt::LRAModel::Ub', 'opensmt::FastRational::compare', 'opensmt::FastRational::operator=='),
               opaque=('opensmt::Simplex', 'opensmt::LRAModel', 'opensmt::Tableau', 'opensmt::LABoundStore'), default_unwind=4, min_obligations=4, object_bits=12, timeout=900,
               bounded_note='model value and bounds drawn from 8 rationals (0, 1, -1, 2, -3, 1/2, -1/3, 7/4) in both components',
               proves='the model predicates asked by the pivot selection compare value and bound in Q_delta, infinitesimal part included')
H_CS = '''void harness(void) {
  g_conflicts = 0; g_saved = 0; g_restored = 0; g_x = E_UNDEF; g_y = E_UNDEF; g_y_for = E_UNDEF; g_lower_for = E_UNDEF; __osmt_thrown = 0;
  x_std_vector_Simplex__ExplTerm r = Simplex__checkSimplex((struct Simplex *)0);
  if (r.sz == 0) {
    __CPROVER_assert(g_conflicts == 0 && g_x == E_UNDEF && g_saved && !g_restored, "consistent is answered only when no basic variable is left to fix; the assignment is then saved");
  } else {
    __CPROVER_assert(g_conflicts == 1 && g_cx == g_x && g_x != E_UNDEF, "the explanation is requested once, for the basic variable selected last");
    __CPROVER_assert(g_y_for == g_x && g_y == E_UNDEF, "a conflict is reported only after the pivot selection found no variable for that row");
    __CPROVER_assert(g_x_bland == g_y_bland, "the basic variable and the pivot variable are selected by the same rule");
    __CPROVER_assert(g_lower_for == g_x && g_clower == g_lower_ans, "the explanation is built for the side on which the model says the variable is out of bounds");
    __CPROVER_assert(g_restored_before_expl && !g_saved, "the last consistent assignment is restored before the explanation is built");
  }
  OSMT_REACH("return");
}
'''
def cs_job():
    return Job('checkSimplex.R', 'src/tsolvers/lasolver/Simplex.cc', 'opensmt::Simplex::checkSimplex', tier='R', header='contracts/C26/checksimplex.h', harness=H_CS, enforce=False, loop_contracts=True,
               pre_includes=('stubs/gmp_types.h', 'stubs/std_types.h', 'contracts/C26/types.h'),
               stubs=('opensmt::Simplex::processBufferOfActivatedBounds', 'opensmt::Tableau::getNumOfCols', 'opensmt::Simplex::getBasicVarToFixByBland', 'opensmt::Simplex::getBasicVarToFixByShortestPoly', 'opensmt::Simplex::refineBounds',
                      'opensmt::LRAModel::saveAssignment', 'opensmt::Simplex::findNonBasicForPivotByBland', 'opensmt::Simplex::findNonBasicForPivotByHeuristic', 'opensmt::Simplex::isModelOutOfBounds', 'opensmt::Simplex::isModelOutOfLowerBound',
                      'opensmt::LRAModel::restoreAssignment', 'opensmt::Simplex::getConflictingBounds', 'opensmt::Simplex::pivot'),
               opaque=('opensmt::Simplex', 'opensmt::LRAModel', 'opensmt::Tableau', 'opensmt::LABoundStore'), min_obligations=5, timeout=900, object_bits=12,
               # the iteration counter and the statistics counters may wrap after 2^32 / 2^64 iterations: intended modular arithmetic, havocked by the loop contract
               expected_wrap=(('Simplex__checkSimplex', 'repeats'), ('Simplex__checkSimplex', 'num_bland_ops'), ('Simplex__checkSimplex', 'num_pivot_ops')),
               proves='a conflict is reported for the row and the side for which the explanation is then built; the pivoting loop of any length')
def jobs(tier):
    return [unb_job(), expl_job(4)] + ([expl_job(5)] if tier == 'thorough' else []) + [
            piv_job('findNonBasicForPivotByBland', 'opensmt::Simplex::findNonBasicForPivotByBland'), piv_job('findNonBasicForPivotByHeuristic', 'opensmt::Simplex::findNonBasicForPivotByHeuristic'), ab_job(), se_job(), se_unb_job(), piv_unb_job(), piv_unb_job('findNonBasicForPivotByHeuristic'), pred_job(), cs_job()]
def info(tier, results):
    return {'level': 'proof', 'trusted_base': ['clang 14 AST', 'osmt2c lowering', 'CBMC 6.11 (dfcc loop contracts)'],
            'assumptions': ['in the unbounded job FastRational::isZero / isNegative / unary minus / copy on coefficients are by contract and coefficients are machine-word rationals other than INT_MIN (the GMP path is decided by the bounded job)', 'the tableau row of a basic variable x is the equation x = sum a_k*y_k over pairwise different non-basic variables with a_k != 0 (Tableau/Polynomial invariant, not verified)',
                            'LRAModel::readLBoundRef/readUBoundRef return the active lower/upper bound of the variable asked about; boundTriviallyUnsatisfied is true only when the asserted bound contradicts the active opposite bound',
                            'isModelStrictlyUnderUpperBound / isModelStrictlyOverLowerBound / isModelOutOfLowerBound / isModelOutOfUpperBound compare the model value with the active bounds as their names say (inline Delta comparisons, not under contract)',
                            'non-basic variables are inside their bounds (Simplex invariant); with it and the pivot-selection obligation the constant part of the combination is false',
                            'std::vector, vec<PtAsgn>, std::unique_ptr, the Polynomial iterator behave as the stubs of contracts/C26/farkas.h',
                            'variable ids are below LVRef::Undef; a column has fewer than 2^32 rows'],
            'explanation': 'C26 is decided function by function on the lowered code of Simplex::getConflictingBounds (unbounded in the row length by a loop contract at real width; and bounded: rows of <= 3 terms at scaled width with the real FastRational code), findNonBasicForPivotByBland/ByHeuristic (bounded: rows of <= 3 terms, real width), Simplex::assertBound (real width, loop-free: complete) and LASolver::storeExplanation (bounded: <= 3 entries).'}
