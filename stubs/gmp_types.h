/* External types of GMP as far as the lowered code touches them, plus ghost fields.
   Everything about GMP here is an ASSUMED contract (listed in every evidence file). */
#ifndef OSMT_GMP_TYPES_H
#define OSMT_GMP_TYPES_H
typedef unsigned long mp_limb_t;
typedef struct {
  int _mp_alloc; int _mp_size; mp_limb_t *_mp_d;
  /* ghost typestate */
  t_bool g_init;   /* mpz_init has run (memory owned)            */
  t_bool g_set;    /* holds a value                              */
#ifdef OSMT_GMP_EXACT
  t_int128 g_v;    /* S: the exact value                         */
#else
  t_bool g_fs;     /* R: value fits signed int   (mpz_fits_sint_p) */
  t_bool g_fu;     /* R: value fits unsigned int (mpz_fits_uint_p) */
  t_bool g_fl;     /* R: g_val is the exact value (it fits a long and came from set_si/set_ui) */
  t_long g_val;
  t_int  g_sgn;    /* R: sign of the value */
  /* R: g_val doubles as the IDENTITY of the value when g_fl is false (an opaque 64-bit tag) */
  t_uchar g_zop; t_long g_za, g_zb;   /* R: provenance of an integer result: which GMP operation on which operand identities */
#endif
} __mpz_struct;
typedef struct { __mpz_struct _mp_num; __mpz_struct _mp_den;
#ifndef OSMT_GMP_EXACT
  t_uchar g_op; t_long g_an, g_ad, g_bn, g_bd;   /* R: provenance of a rational result (operation, identities of both operands) */
#endif
} __mpq_struct;
#define OSMT_OP_NONE 0
#define OSMT_OP_ADD 2
#define OSMT_OP_SUB 3
#define OSMT_OP_MUL 4
#define OSMT_OP_DIV 5
#define OSMT_OP_NEG 6
#define OSMT_OP_INV 7
#define OSMT_OP_CDIV 8
#define OSMT_OP_FDIV 9
#define OSMT_OP_DIVEXACT 10
#define OSMT_OP_GCD 11
#define OSMT_OP_LCM 12
#define OSMT_OP_TDIV 13
typedef __mpq_struct *mpq_ptr; typedef const __mpq_struct *mpq_srcptr;
typedef __mpz_struct *mpz_ptr; typedef const __mpz_struct *mpz_srcptr;
/* the C++ wrapper classes are opaque */
typedef struct { __mpz_struct z; } x___gmp_expr_mpz_t_mpz_t;
typedef struct { __mpq_struct q; } x___gmp_expr_mpq_t_mpq_t;
typedef x___gmp_expr_mpz_t_mpz_t mpz_class; typedef x___gmp_expr_mpq_t_mpq_t mpq_class;
typedef struct { char __opaque; } x_std_stack___gmp_expr_mpq_t_mpq_t;
typedef struct { char __opaque; } x_std_mutex; typedef x_std_mutex x_std_lock_guard_std_mutex___mutex_type; typedef struct { char __opaque; } x_std_lock_guard_std_mutex;
typedef struct { char __opaque; } x_std_stack___mpq_struct_P_std_vector___mpq_struct_P;
#endif
