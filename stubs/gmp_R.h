/* R tier: typestate model of the GMP functions the lowered FastRational code calls (ASSUMED contracts).
   A requires-clause is written as a named obligation at the call site (__CPROVER_assert), the ensures-clause
   as havoc + assume.  Values are abstracted to the flags of gmp_types.h. */
#ifndef OSMT_GMP_R_H
#define OSMT_GMP_R_H
t_bool nondet_bool(void); t_int nondet_int(void); t_long nondet_long(void); t_ulong nondet_ulong(void);
void *malloc(__CPROVER_size_t);
int __osmt_thrown;
/* ghost: some GMP arithmetic ran (the abstract R model loses the value there) / the shared pool was touched */
t_bool g_gmp_arith; t_bool g_pool_touched;

#define MPZ_INIT(z) ((z)->g_init)
#define MPZ_SET(z)  ((z)->g_init && (z)->g_set)
#define MPQ_INIT(q) (MPZ_INIT(&(q)->_mp_num) && MPZ_INIT(&(q)->_mp_den))
#define MPQ_SET(q)  (MPZ_SET(&(q)->_mp_num) && MPZ_SET(&(q)->_mp_den) && (q)->_mp_den.g_sgn == 1 && (q)->_mp_den._mp_size > 0)
#define MPQ_FITS(q) ((q)->_mp_num.g_fs && (q)->_mp_den.g_fu)
/* consistency of the ghost flags of one integer */
#define MPZ_CONS(z) ( ((z)->g_sgn >= -1 && (z)->g_sgn <= 1) && (((z)->g_sgn == 0) == ((z)->_mp_size == 0)) && (((z)->g_sgn < 0) == ((z)->_mp_size < 0)) \
                    && ((z)->g_sgn != 0 || ((z)->g_fs && (z)->g_fu)) && (!(z)->g_fu || (z)->g_sgn >= 0) && (!((z)->g_fs || (z)->g_fu) || (z)->g_fl) \
                    && (!(z)->g_fl || ( (z)->g_fs == ((z)->g_val >= -2147483647l-1 && (z)->g_val <= 2147483647l) && (z)->g_fu == ((z)->g_val >= 0 && (z)->g_val <= 4294967295l) \
                                        && (z)->g_sgn == ((z)->g_val > 0) - ((z)->g_val < 0) )) )

/* a rational held by GMP is canonical: zero is 0/1 */
#define MPQ_CONS(q) (MPZ_CONS(&(q)->_mp_num) && MPZ_CONS(&(q)->_mp_den) && ((q)->_mp_num.g_sgn != 0 || ((q)->_mp_den.g_fl && (q)->_mp_den.g_val == 1)))

static void osmt_havoc_mpz(__mpz_struct *z, t_int sgn_lo, t_int sgn_hi) {
  z->g_set = 1; z->g_fs = nondet_bool(); z->g_fu = nondet_bool(); z->g_fl = nondet_bool(); z->g_val = nondet_long();
  z->g_sgn = nondet_int(); z->_mp_size = nondet_int();
  __CPROVER_assume(z->g_sgn >= sgn_lo && z->g_sgn <= sgn_hi);
  __CPROVER_assume(MPZ_CONS(z));
}
static void osmt_havoc_mpq(__mpq_struct *q) { osmt_havoc_mpz(&q->_mp_num, -1, 1); osmt_havoc_mpz(&q->_mp_den, 1, 1);
  __CPROVER_assume(MPQ_CONS(q)); }

static void osmt_set_long(__mpz_struct *z, t_long v) {
  z->g_set = 1; z->g_fl = 1; z->g_val = v; z->g_fs = (v >= -2147483647l-1 && v <= 2147483647l); z->g_fu = (v >= 0 && v <= 4294967295l);
  z->g_sgn = (v > 0) - (v < 0); z->_mp_size = z->g_sgn;
}
void __gmpz_set_si(mpz_ptr z, t_long v) { __CPROVER_assert(MPZ_INIT(z), "gmp-pre: mpz_set_si on initialised integer"); osmt_set_long(z, v); }
void __gmpz_set_ui(mpz_ptr z, t_ulong v) { __CPROVER_assert(MPZ_INIT(z), "gmp-pre: mpz_set_ui on initialised integer");
  if (v <= 9223372036854775807ul) osmt_set_long(z, (t_long)v); else { osmt_havoc_mpz(z, 1, 1); __CPROVER_assume(!z->g_fs && !z->g_fu && !z->g_fl); } }
void __gmpz_set(mpz_ptr r, mpz_srcptr a) { __CPROVER_assert(MPZ_INIT(r), "gmp-pre: mpz_set target initialised"); __CPROVER_assert(MPZ_SET(a), "gmp-pre: mpz_set source holds a value");
  __mpz_struct t = *a; r->g_set = 1; r->g_fs = t.g_fs; r->g_fu = t.g_fu; r->g_fl = t.g_fl; r->g_val = t.g_val; r->g_sgn = t.g_sgn; r->_mp_size = t._mp_size; }
t_int __gmpz_fits_sint_p(mpz_srcptr z) { __CPROVER_assert(MPZ_SET(z), "gmp-pre: mpz_fits_sint_p reads a value"); return z->g_fs; }
t_int __gmpz_fits_uint_p(mpz_srcptr z) { __CPROVER_assert(MPZ_SET(z), "gmp-pre: mpz_fits_uint_p reads a value"); return z->g_fu; }
t_long __gmpz_get_si(mpz_srcptr z) { __CPROVER_assert(MPZ_SET(z), "gmp-pre: mpz_get_si reads a value");
  if (z->g_fl) return z->g_val; t_long r = nondet_long();
  return r; }
t_ulong __gmpz_get_ui(mpz_srcptr z) { __CPROVER_assert(MPZ_SET(z), "gmp-pre: mpz_get_ui reads a value");
  if (z->g_fl && z->g_val >= 0) return (t_ulong)z->g_val; t_ulong r = nondet_ulong();
  return r; }
/* provenance: the result object remembers which operation produced it from which operand identities (captured before the
   result is overwritten -- GMP allows r to alias an operand) */
#define OSMT_PROV(r, op, a, b) { t_long an_ = (a)->_mp_num.g_val, ad_ = (a)->_mp_den.g_val, bn_ = (b)->_mp_num.g_val, bd_ = (b)->_mp_den.g_val; \
  g_gmp_arith = 1; osmt_havoc_mpq(r); (r)->g_op = (op); (r)->g_an = an_; (r)->g_ad = ad_; (r)->g_bn = bn_; (r)->g_bd = bd_; }
#define OSMT_MPQ_BIN(name, text, op) \
void name(mpq_ptr r, mpq_srcptr a, mpq_srcptr b) { \
  __CPROVER_assert(MPQ_INIT(r), "gmp-pre: " text " result initialised"); \
  __CPROVER_assert(MPQ_SET(a), "gmp-pre: " text " first operand holds a value"); \
  __CPROVER_assert(MPQ_SET(b), "gmp-pre: " text " second operand holds a value"); \
  OSMT_PROV(r, op, a, b) }
OSMT_MPQ_BIN(__gmpq_add, "mpq_add", OSMT_OP_ADD)
OSMT_MPQ_BIN(__gmpq_sub, "mpq_sub", OSMT_OP_SUB)
void __gmpq_mul(mpq_ptr r, mpq_srcptr a, mpq_srcptr b) {
  __CPROVER_assert(MPQ_INIT(r), "gmp-pre: mpq_mul result initialised");
  __CPROVER_assert(MPQ_SET(a), "gmp-pre: mpq_mul first operand holds a value");
  __CPROVER_assert(MPQ_SET(b), "gmp-pre: mpq_mul second operand holds a value");
  t_int s = a->_mp_num.g_sgn * b->_mp_num.g_sgn;
  OSMT_PROV(r, OSMT_OP_MUL, a, b) __CPROVER_assume(r->_mp_num.g_sgn == s); }
void __gmpq_div(mpq_ptr r, mpq_srcptr a, mpq_srcptr b) {
  __CPROVER_assert(MPQ_INIT(r), "gmp-pre: mpq_div result initialised");
  __CPROVER_assert(MPQ_SET(a), "gmp-pre: mpq_div first operand holds a value");
  __CPROVER_assert(MPQ_SET(b), "gmp-pre: mpq_div second operand holds a value");
  __CPROVER_assert(b->_mp_num.g_sgn != 0, "gmp-pre: mpq_div divisor non-zero");
  t_int s = a->_mp_num.g_sgn * b->_mp_num.g_sgn;
  OSMT_PROV(r, OSMT_OP_DIV, a, b) __CPROVER_assume(r->_mp_num.g_sgn == s); }
void __gmpq_neg(mpq_ptr r, mpq_srcptr a) {
  __CPROVER_assert(MPQ_INIT(r), "gmp-pre: mpq_neg result initialised"); __CPROVER_assert(MPQ_SET(a), "gmp-pre: mpq_neg operand holds a value");
  t_int s = a->_mp_num.g_sgn; t_bool fl = a->_mp_num.g_fl; t_long v = a->_mp_num.g_val; __mpz_struct d = a->_mp_den;
  t_long idn = a->_mp_num.g_val, idd = a->_mp_den.g_val;
  if (fl && v > -9223372036854775807l-1) osmt_set_long(&r->_mp_num, -v); else { osmt_havoc_mpz(&r->_mp_num, -s, -s); }
  r->g_op = OSMT_OP_NEG; r->g_an = idn; r->g_ad = idd;
  r->_mp_den.g_set = 1; r->_mp_den.g_fs = d.g_fs; r->_mp_den.g_fu = d.g_fu; r->_mp_den.g_fl = d.g_fl; r->_mp_den.g_val = d.g_val; r->_mp_den.g_sgn = d.g_sgn; r->_mp_den._mp_size = d._mp_size; }
void __gmpq_inv(mpq_ptr r, mpq_srcptr a) {
  __CPROVER_assert(MPQ_INIT(r), "gmp-pre: mpq_inv result initialised"); __CPROVER_assert(MPQ_SET(a), "gmp-pre: mpq_inv operand holds a value");
  __CPROVER_assert(a->_mp_num.g_sgn != 0, "gmp-pre: mpq_inv operand non-zero");
  t_int s = a->_mp_num.g_sgn; OSMT_PROV(r, OSMT_OP_INV, a, a) __CPROVER_assume(r->_mp_num.g_sgn == s); }
void __gmpq_set(mpq_ptr r, mpq_srcptr a) {
  __CPROVER_assert(MPQ_INIT(r), "gmp-pre: mpq_set result initialised"); __CPROVER_assert(MPQ_SET(a), "gmp-pre: mpq_set operand holds a value");
  __mpz_struct n = a->_mp_num, d = a->_mp_den;
  r->_mp_num.g_set = 1; r->_mp_num.g_fs = n.g_fs; r->_mp_num.g_fu = n.g_fu; r->_mp_num.g_fl = n.g_fl; r->_mp_num.g_val = n.g_val; r->_mp_num.g_sgn = n.g_sgn; r->_mp_num._mp_size = n._mp_size;
  r->_mp_den.g_set = 1; r->_mp_den.g_fs = d.g_fs; r->_mp_den.g_fu = d.g_fu; r->_mp_den.g_fl = d.g_fl; r->_mp_den.g_val = d.g_val; r->_mp_den.g_sgn = d.g_sgn; r->_mp_den._mp_size = d._mp_size; }
t_int __gmpq_cmp(mpq_srcptr a, mpq_srcptr b) { __CPROVER_assert(MPQ_SET(a), "gmp-pre: mpq_cmp first operand holds a value"); __CPROVER_assert(MPQ_SET(b), "gmp-pre: mpq_cmp second operand holds a value");
  t_int r = nondet_int(); t_int sa = a->_mp_num.g_sgn, sb = b->_mp_num.g_sgn;
  /* what the abstraction knows: different signs decide the comparison; identical exact pairs are equal */
  if (sa < sb) __CPROVER_assume(r < 0); if (sa > sb) __CPROVER_assume(r > 0);
  if (a->_mp_num.g_fl && b->_mp_num.g_fl && a->_mp_den.g_fl && b->_mp_den.g_fl && a->_mp_den.g_val == b->_mp_den.g_val)
    __CPROVER_assume((r < 0) == (a->_mp_num.g_val < b->_mp_num.g_val) && (r > 0) == (a->_mp_num.g_val > b->_mp_num.g_val));
  return r; }
t_int __gmpq_equal(mpq_srcptr a, mpq_srcptr b) { __CPROVER_assert(MPQ_SET(a), "gmp-pre: mpq_equal first operand holds a value"); __CPROVER_assert(MPQ_SET(b), "gmp-pre: mpq_equal second operand holds a value");
  t_int r = nondet_bool();
  if (a->_mp_num.g_sgn != b->_mp_num.g_sgn) return 0;
  if (a->_mp_num.g_fl && b->_mp_num.g_fl && a->_mp_den.g_fl && b->_mp_den.g_fl) return a->_mp_num.g_val == b->_mp_num.g_val && a->_mp_den.g_val == b->_mp_den.g_val;
  /* canonical forms are unique: a value known exactly differs from one that does not fit a long */
  if ((a->_mp_num.g_fl != b->_mp_num.g_fl) || (a->_mp_den.g_fl != b->_mp_den.g_fl)) return 0;
  return r; }
void __gmpq_set_ui(mpq_ptr r, t_ulong n, t_ulong d) { __CPROVER_assert(MPQ_INIT(r), "gmp-pre: mpq_set_ui result initialised");
  __gmpz_set_ui(&r->_mp_num, n); __gmpz_set_ui(&r->_mp_den, d); }
void __gmpq_set_si(mpq_ptr r, t_long n, t_ulong d) { __CPROVER_assert(MPQ_INIT(r), "gmp-pre: mpq_set_si result initialised");
  __gmpz_set_si(&r->_mp_num, n); __gmpz_set_ui(&r->_mp_den, d); }
#define OSMT_ZPROV(q, op, n, d) { t_long a_ = (n)->g_val, b_ = (d)->g_val; g_gmp_arith = 1; osmt_havoc_mpz(q, ((op) == OSMT_OP_GCD || (op) == OSMT_OP_LCM) ? 0 : -1, 1); (q)->g_zop = (op); (q)->g_za = a_; (q)->g_zb = b_; }
#define OSMT_MPZ_DIV(name, text, op) \
void name(mpz_ptr q, mpz_srcptr n, mpz_srcptr d) { \
  __CPROVER_assert(MPZ_INIT(q), "gmp-pre: " text " result initialised"); \
  __CPROVER_assert(MPZ_SET(n), "gmp-pre: " text " dividend holds a value"); \
  __CPROVER_assert(MPZ_SET(d), "gmp-pre: " text " divisor holds a value"); \
  __CPROVER_assert(d->g_sgn != 0, "gmp-pre: " text " divisor non-zero"); \
  OSMT_ZPROV(q, op, n, d) }
OSMT_MPZ_DIV(__gmpz_cdiv_q, "mpz_cdiv_q", OSMT_OP_CDIV)
OSMT_MPZ_DIV(__gmpz_fdiv_q, "mpz_fdiv_q", OSMT_OP_FDIV)
OSMT_MPZ_DIV(__gmpz_divexact, "mpz_divexact", OSMT_OP_DIVEXACT)
OSMT_MPZ_DIV(__gmpz_tdiv_q, "mpz_tdiv_q", OSMT_OP_TDIV)
#define OSMT_MPZ_BIN(name, text, op) \
void name(mpz_ptr q, mpz_srcptr n, mpz_srcptr d) { \
  __CPROVER_assert(MPZ_INIT(q), "gmp-pre: " text " result initialised"); \
  __CPROVER_assert(MPZ_SET(n), "gmp-pre: " text " first operand holds a value"); \
  __CPROVER_assert(MPZ_SET(d), "gmp-pre: " text " second operand holds a value"); \
  OSMT_ZPROV(q, op, n, d) }
OSMT_MPZ_BIN(__gmpz_gcd, "mpz_gcd", OSMT_OP_GCD)
OSMT_MPZ_BIN(__gmpz_lcm, "mpz_lcm", OSMT_OP_LCM)
OSMT_MPZ_BIN(__gmpz_mul, "mpz_mul", OSMT_OP_MUL)
OSMT_MPZ_BIN(__gmpz_add, "mpz_add", OSMT_OP_ADD)
OSMT_MPZ_BIN(__gmpz_sub, "mpz_sub", OSMT_OP_SUB)
/* the thread-local scratch integer FastRational::temp (an mpz_class; constructed => initialised, holds 0) */
x___gmp_expr_mpz_t_mpz_t g_FastRational__temp_obj;
__mpz_struct *__gmp_expr_mpz_t_mpz_t__get_mpz_t(void *self, ...) { __mpz_struct *z = &((x___gmp_expr_mpz_t_mpz_t *)self)->z; __CPROVER_assume(z->g_init); return z; }
/* mpq_get_d: the double nearest (towards zero) to the value; exact only up to 2^53 -- CBMC's IEEE-754 semantics do the rounding */
t_double nondet_double(void);
t_double __gmpq_get_d(mpq_srcptr a) { __CPROVER_assert(MPQ_SET(a), "gmp-pre: mpq_get_d operand holds a value");
  if (a->_mp_num.g_fl && a->_mp_den.g_fl && a->_mp_den.g_val == 1) return (t_double)a->_mp_num.g_val;
  return nondet_double(); }
/* the pool: alloc returns an initialised mpq whose old contents are meaningless */
mpq_ptr FastRational__mpqPool__alloc(void *self) {
  mpq_ptr p = malloc(sizeof(__mpq_struct));
  p->_mp_num.g_init = 1; p->_mp_num.g_set = 0; p->_mp_den.g_init = 1; p->_mp_den.g_set = 0;
  g_pool_touched = 1;
  return p; }
void FastRational__mpqPool__release(void *self, mpq_ptr p) {
  __CPROVER_assert(MPQ_INIT(p), "pool-pre: released object was allocated and not yet released");
  p->_mp_num.g_init = 0; p->_mp_den.g_init = 0; g_pool_touched = 1; }
#endif
