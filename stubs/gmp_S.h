/* S tier: EXECUTABLE exact model of the GMP functions the lowered FastRational code calls, over wide bit-vectors
   (t_int128 = 4W+12 bits here).  mpq results are canonicalised (Euclid, completely unwound; unwinding assertions on).
   This is the assumed contract of GMP ("exact, canonical") in executable form. */
#ifndef OSMT_GMP_S_H
#define OSMT_GMP_S_H
t_bool nondet_bool(void); t_uchar nondet_uchar(void); t_int128 nondet_wide(void); t_word nondet_word(void); t_uword nondet_uword(void);
void *malloc(__CPROVER_size_t);
int __osmt_thrown;
t_bool g_gmp_arith; t_bool g_pool_touched;
typedef t_int128 wide; typedef t_uint128 uwide;
#define MPZ_INIT(z) ((z)->g_init)
#define MPZ_SET(z)  ((z)->g_init && (z)->g_set)
#define MPQ_INIT(q) (MPZ_INIT(&(q)->_mp_num) && MPZ_INIT(&(q)->_mp_den))
#define MPQ_SET(q)  (MPZ_SET(&(q)->_mp_num) && MPZ_SET(&(q)->_mp_den) && (q)->_mp_den.g_v >= 1)
static wide sp_abs(wide a) { return a < 0 ? -a : a; }
/* coprimality of a pair whose smaller component is at most `limit` (<= 256): no prime <= limit divides both.
   A constant table of divisors keeps this cheap for SAT (division by constants); Euclid is used only inside the GMP model. */
static const int sp_primes[54] = {2,3,5,7,11,13,17,19,23,29,31,37,41,43,47,53,59,61,67,71,73,79,83,89,97,101,103,107,109,113,127,131,137,139,149,151,157,163,167,173,179,181,191,193,197,199,211,223,227,229,233,239,241,251};
static t_bool sp_coprime(wide n, wide d, int limit) {
  for (int i = 0; i < 54; i++) { if (sp_primes[i] <= limit) { wide p = (wide)sp_primes[i]; if (n % p == 0 && d % p == 0) return 0; } }
  return 1; }

/* specification gcd on wide values: binary (Stein) gcd -- shifts and subtractions only, no divider circuits, so that
   SAT copes; loop id sp_gcd.0, completely unwound (unwinding assertion on) */
static wide sp_gcd(wide a, wide b) {
  if (a == 0) return b;
  if (b == 0) return a;
  wide k = 1;
  while (a != b) {
    t_bool ae = (a & 1) == 0, be = (b & 1) == 0;
    if (ae && be) { a = a >> 1; b = b >> 1; k = k << 1; }
    else if (ae) a = a >> 1;
    else if (be) b = b >> 1;
    else if (a > b) a = (a - b) >> 1;
    else b = (b - a) >> 1;
  }
  return a * k;
}
#define MPQ_FITS(q) ((q)->_mp_num.g_v >= (wide)OSMT_LIM_INT_MIN && (q)->_mp_num.g_v <= (wide)OSMT_LIM_INT_MAX && (q)->_mp_den.g_v >= 0 && (q)->_mp_den.g_v <= (wide)OSMT_LIM_UINT_MAX)
static void osmt_setz(__mpz_struct *z, wide v) { z->g_set = 1; z->g_v = v; z->_mp_size = (v > 0) - (v < 0); }
/* Results of GMP *rational arithmetic* (mpq_add/sub/mul/div) are never inspected in the S tier: every S harness assumes
   !g_gmp_arith after the call, because the GMP fall-back is decided at real width by provenance (fr_R.h).  The pair is
   therefore stored as computed (exact value, not reduced). */
static void osmt_setq(__mpq_struct *q, wide n, wide d) {
  if (d < 0) { n = -n; d = -d; }
  osmt_setz(&q->_mp_num, n); osmt_setz(&q->_mp_den, d);
}
void __gmpz_set_si(mpz_ptr z, t_long v) { __CPROVER_assert(MPZ_INIT(z), "gmp-pre: mpz_set_si on initialised integer"); osmt_setz(z, (wide)v); }
void __gmpz_set_ui(mpz_ptr z, t_ulong v) { __CPROVER_assert(MPZ_INIT(z), "gmp-pre: mpz_set_ui on initialised integer"); osmt_setz(z, (wide)(uwide)v); }
void __gmpz_set(mpz_ptr r, mpz_srcptr a) { __CPROVER_assert(MPZ_INIT(r), "gmp-pre: mpz_set target initialised"); __CPROVER_assert(MPZ_SET(a), "gmp-pre: mpz_set source holds a value"); osmt_setz(r, a->g_v); }
t_int __gmpz_fits_sint_p(mpz_srcptr z) { __CPROVER_assert(MPZ_SET(z), "gmp-pre: mpz_fits_sint_p reads a value"); return z->g_v >= (wide)OSMT_LIM_INT_MIN && z->g_v <= (wide)OSMT_LIM_INT_MAX; }
t_int __gmpz_fits_uint_p(mpz_srcptr z) { __CPROVER_assert(MPZ_SET(z), "gmp-pre: mpz_fits_uint_p reads a value"); return z->g_v >= 0 && z->g_v <= (wide)OSMT_LIM_UINT_MAX; }
/* mpz_get_si / mpz_get_ui: GMP returns the low bits (with the sign for get_si) when the value does not fit */
t_long __gmpz_get_si(mpz_srcptr z) { __CPROVER_assert(MPZ_SET(z), "gmp-pre: mpz_get_si reads a value");
  wide v = z->g_v; wide m = ((wide)1 << (OSMT_W2 - 1)); wide lo = sp_abs(v) % m; return (t_long)(v < 0 ? -lo : lo); }
t_ulong __gmpz_get_ui(mpz_srcptr z) { __CPROVER_assert(MPZ_SET(z), "gmp-pre: mpz_get_ui reads a value");
  return (t_ulong)(uwide)(sp_abs(z->g_v) % ((wide)1 << OSMT_W2)); }
#define Q_PRE(text) \
  __CPROVER_assert(MPQ_INIT(r), "gmp-pre: " text " result initialised"); \
  __CPROVER_assert(MPQ_SET(a), "gmp-pre: " text " first operand holds a value"); \
  __CPROVER_assert(MPQ_SET(b), "gmp-pre: " text " second operand holds a value");
void __gmpq_add(mpq_ptr r, mpq_srcptr a, mpq_srcptr b) { Q_PRE("mpq_add") g_gmp_arith = 1;
  osmt_setq(r, a->_mp_num.g_v * b->_mp_den.g_v + b->_mp_num.g_v * a->_mp_den.g_v, a->_mp_den.g_v * b->_mp_den.g_v); }
void __gmpq_sub(mpq_ptr r, mpq_srcptr a, mpq_srcptr b) { Q_PRE("mpq_sub") g_gmp_arith = 1;
  osmt_setq(r, a->_mp_num.g_v * b->_mp_den.g_v - b->_mp_num.g_v * a->_mp_den.g_v, a->_mp_den.g_v * b->_mp_den.g_v); }
void __gmpq_mul(mpq_ptr r, mpq_srcptr a, mpq_srcptr b) { Q_PRE("mpq_mul") g_gmp_arith = 1;
  osmt_setq(r, a->_mp_num.g_v * b->_mp_num.g_v, a->_mp_den.g_v * b->_mp_den.g_v); }
void __gmpq_div(mpq_ptr r, mpq_srcptr a, mpq_srcptr b) { Q_PRE("mpq_div") g_gmp_arith = 1;
  __CPROVER_assert(b->_mp_num.g_v != 0, "gmp-pre: mpq_div divisor non-zero");
  osmt_setq(r, a->_mp_num.g_v * b->_mp_den.g_v, a->_mp_den.g_v * b->_mp_num.g_v); }
void __gmpq_neg(mpq_ptr r, mpq_srcptr a) { __CPROVER_assert(MPQ_INIT(r), "gmp-pre: mpq_neg result initialised"); __CPROVER_assert(MPQ_SET(a), "gmp-pre: mpq_neg operand holds a value");
  wide n = a->_mp_num.g_v, d = a->_mp_den.g_v; osmt_setz(&r->_mp_num, -n); osmt_setz(&r->_mp_den, d); }
void __gmpq_inv(mpq_ptr r, mpq_srcptr a) { __CPROVER_assert(MPQ_INIT(r), "gmp-pre: mpq_inv result initialised"); __CPROVER_assert(MPQ_SET(a), "gmp-pre: mpq_inv operand holds a value");
  __CPROVER_assert(a->_mp_num.g_v != 0, "gmp-pre: mpq_inv operand non-zero"); g_gmp_arith = 1;
  wide n = a->_mp_num.g_v, d = a->_mp_den.g_v; if (n < 0) { osmt_setz(&r->_mp_num, -d); osmt_setz(&r->_mp_den, -n); } else { osmt_setz(&r->_mp_num, d); osmt_setz(&r->_mp_den, n); } }
void __gmpq_set(mpq_ptr r, mpq_srcptr a) { __CPROVER_assert(MPQ_INIT(r), "gmp-pre: mpq_set result initialised"); __CPROVER_assert(MPQ_SET(a), "gmp-pre: mpq_set operand holds a value");
  wide n = a->_mp_num.g_v, d = a->_mp_den.g_v; osmt_setz(&r->_mp_num, n); osmt_setz(&r->_mp_den, d); }
void __gmpq_set_ui(mpq_ptr r, t_ulong n, t_ulong d) { __CPROVER_assert(MPQ_INIT(r), "gmp-pre: mpq_set_ui result initialised"); osmt_setz(&r->_mp_num, (wide)(uwide)n); osmt_setz(&r->_mp_den, (wide)(uwide)d); }
void __gmpq_set_si(mpq_ptr r, t_long n, t_ulong d) { __CPROVER_assert(MPQ_INIT(r), "gmp-pre: mpq_set_si result initialised"); osmt_setz(&r->_mp_num, (wide)n); osmt_setz(&r->_mp_den, (wide)(uwide)d); }
t_int __gmpq_cmp(mpq_srcptr a, mpq_srcptr b) { __CPROVER_assert(MPQ_SET(a), "gmp-pre: mpq_cmp first operand holds a value"); __CPROVER_assert(MPQ_SET(b), "gmp-pre: mpq_cmp second operand holds a value");
  wide l = a->_mp_num.g_v * b->_mp_den.g_v, rr = b->_mp_num.g_v * a->_mp_den.g_v; return (l > rr) - (l < rr); }
t_int __gmpq_equal(mpq_srcptr a, mpq_srcptr b) { __CPROVER_assert(MPQ_SET(a), "gmp-pre: mpq_equal first operand holds a value"); __CPROVER_assert(MPQ_SET(b), "gmp-pre: mpq_equal second operand holds a value");
  return a->_mp_num.g_v == b->_mp_num.g_v && a->_mp_den.g_v == b->_mp_den.g_v; }
/* integer divisions (floor / ceiling / exact / truncating) */
static wide sp_fdiv(wide n, wide d) { wide q = n / d; if ((n % d != 0) && ((n < 0) != (d < 0))) q = q - 1; return q; }
static wide sp_cdiv(wide n, wide d) { wide q = n / d; if ((n % d != 0) && ((n < 0) == (d < 0))) q = q + 1; return q; }
#define Z_DIV(name, text, expr) \
void name(mpz_ptr q, mpz_srcptr n, mpz_srcptr d) { \
  __CPROVER_assert(MPZ_INIT(q), "gmp-pre: " text " result initialised"); \
  __CPROVER_assert(MPZ_SET(n), "gmp-pre: " text " dividend holds a value"); \
  __CPROVER_assert(MPZ_SET(d), "gmp-pre: " text " divisor holds a value"); \
  __CPROVER_assert(d->g_v != 0, "gmp-pre: " text " divisor non-zero"); \
  g_gmp_arith = 1; wide nn = n->g_v, dd = d->g_v; osmt_setz(q, expr); }
Z_DIV(__gmpz_cdiv_q, "mpz_cdiv_q", sp_cdiv(nn, dd))
Z_DIV(__gmpz_fdiv_q, "mpz_fdiv_q", sp_fdiv(nn, dd))
Z_DIV(__gmpz_tdiv_q, "mpz_tdiv_q", nn / dd)
void __gmpz_divexact(mpz_ptr q, mpz_srcptr n, mpz_srcptr d) {
  __CPROVER_assert(MPZ_INIT(q), "gmp-pre: mpz_divexact result initialised"); __CPROVER_assert(MPZ_SET(n) && MPZ_SET(d), "gmp-pre: mpz_divexact operands hold values");
  __CPROVER_assert(d->g_v != 0 && n->g_v % d->g_v == 0, "gmp-pre: mpz_divexact requires an exact division"); g_gmp_arith = 1; wide nn = n->g_v, dd = d->g_v; osmt_setz(q, nn / dd); }
#define Z_BIN(name, text, expr) \
void name(mpz_ptr q, mpz_srcptr n, mpz_srcptr d) { \
  __CPROVER_assert(MPZ_INIT(q), "gmp-pre: " text " result initialised"); \
  __CPROVER_assert(MPZ_SET(n), "gmp-pre: " text " first operand holds a value"); \
  __CPROVER_assert(MPZ_SET(d), "gmp-pre: " text " second operand holds a value"); \
  g_gmp_arith = 1; wide nn = n->g_v, dd = d->g_v; osmt_setz(q, expr); }
Z_BIN(__gmpz_gcd, "mpz_gcd", sp_gcd(sp_abs(nn), sp_abs(dd)))
Z_BIN(__gmpz_lcm, "mpz_lcm", ((nn == 0 || dd == 0) ? (wide)0 : sp_abs(nn) / sp_gcd(sp_abs(nn), sp_abs(dd)) * sp_abs(dd)))
Z_BIN(__gmpz_mul, "mpz_mul", nn * dd)
Z_BIN(__gmpz_add, "mpz_add", nn + dd)
Z_BIN(__gmpz_sub, "mpz_sub", nn - dd)
x___gmp_expr_mpz_t_mpz_t g_FastRational__temp_obj;
__mpz_struct *__gmp_expr_mpz_t_mpz_t__get_mpz_t(void *self, ...) { __mpz_struct *z = &((x___gmp_expr_mpz_t_mpz_t *)self)->z; z->g_init = 1; return z; }
mpq_ptr FastRational__mpqPool__alloc(void *self) {
  mpq_ptr p = malloc(sizeof(__mpq_struct));
  p->_mp_num.g_init = 1; p->_mp_num.g_set = 0; p->_mp_den.g_init = 1; p->_mp_den.g_set = 0; g_pool_touched = 1; return p; }
void FastRational__mpqPool__release(void *self, mpq_ptr p) {
  __CPROVER_assert(MPQ_INIT(p), "pool-pre: released object was allocated and not yet released");
  p->_mp_num.g_init = 0; p->_mp_den.g_init = 0; g_pool_touched = 1; }
#endif
