/* Concrete model of the std::string / std::ostream family for printing code (assumed contracts of the C++ library).
 * A string is {pointer into a static block, length}; every block has STRCAP bytes, enough for every string the bounded
 * harness produces (an obligation at every append).  Streams are strings that grow.  Blocks are never reused, so a
 * dangling reference cannot alias a new string.  Only what the lowered code calls is defined; anything else is a missing
 * stub (UNDECIDED), never a silent pass. */
#ifndef OSMT_STD_STRING_H
#define OSMT_STD_STRING_H
#ifndef STRCAP
#define STRCAP 40
#endif
#ifndef STRBLOCKS
#define STRBLOCKS 16
#endif
#pragma CPROVER check push
#pragma CPROVER check disable "pointer"
#pragma CPROVER check disable "bounds"
#pragma CPROVER check disable "conversion"
#pragma CPROVER check disable "signed-overflow"
#pragma CPROVER check disable "unsigned-overflow"
#pragma CPROVER check disable "pointer-primitive"
static t_char s_pool[STRBLOCKS][STRCAP]; static int s_blocks;
static t_char *s_new(void) { __CPROVER_assert(s_blocks < STRBLOCKS, "string pool has a block left"); t_char *p = s_pool[s_blocks < STRBLOCKS ? s_blocks : 0]; s_blocks++; p[0] = 0; return p; }
static void s_putc(struct osmt_string *s, t_char c) { __CPROVER_assert(s->n + 1 < STRCAP, "string within the block size of the bounded model"); if (s->n + 1 < STRCAP) { s->p[s->n] = c; s->n++; s->p[s->n] = 0; } }
static void s_puts(struct osmt_string *s, const t_char *t) { for (int i = 0; i < STRCAP; i++) { if (t[i] == 0) break; s_putc(s, t[i]); } }
static void s_putn(struct osmt_string *s, const t_char *t, t_ulong n) { for (unsigned long i = 0; i < STRCAP; i++) { if (i >= n) break; s_putc(s, t[i]); } }
static void s_putu(struct osmt_string *s, unsigned long long v) {   /* decimal digits of v */
  t_char d[20]; int k = 0; if (v == 0) { s_putc(s, '0'); return; }
  for (int i = 0; i < 20; i++) { if (v == 0) break; d[k++] = (t_char)('0' + (int)(v % 10)); v /= 10; }
  for (int i = 0; i < 20; i++) { if (k == 0) break; k--; s_putc(s, d[k]); } }
static void s_puti(struct osmt_string *s, long long v) { if (v < 0) { s_putc(s, '-'); s_putu(s, (unsigned long long)(-(v + 1)) + 1ull); } else s_putu(s, (unsigned long long)v); }
static struct osmt_string s_empty(void) { struct osmt_string s; s.p = s_new(); s.n = 0; return s; }
static struct osmt_string s_copy(const struct osmt_string *o) { struct osmt_string s = s_empty(); s_putn(&s, o->p, o->n); return s; }
static struct osmt_string s_from(const t_char *t) { struct osmt_string s = s_empty(); s_puts(&s, t); return s; }
#pragma CPROVER check pop
#endif
