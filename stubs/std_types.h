/* external std:: types that lowered code of several properties refers to by value */
#ifndef OSMT_STD_TYPES_H
#define OSMT_STD_TYPES_H
typedef struct { t_bool v; } x_std_atomic_bool;
typedef struct { int idx; } x_std___detail___Node_const_iterator_std_basic_string_char_true_true;
typedef x_std___detail___Node_const_iterator_std_basic_string_char_true_true x_std___detail___Node_iterator_base_std_basic_string_char_true;
typedef struct { char __opaque; } x_std_unordered_set_std_string; typedef x_std_unordered_set_std_string x_std_unordered_set_std_basic_string_char;
#endif
