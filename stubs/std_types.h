/* external std:: types that lowered code of several properties refers to by value */
#ifndef OSMT_STD_TYPES_H
#define OSMT_STD_TYPES_H
typedef struct { t_bool v; } x_std_atomic_bool;
#endif
