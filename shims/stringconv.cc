// Shim translation unit: instantiates the header-only string conversion functions of /repo/src/common/StringConv.h
#include "common/StringConv.h"
#include "common/numbers/NumberUtils.h"
