// Shim translation unit (never linked into opensmt): gives clang a small TU in which the header-defined functions of the
// difference-logic number types are instantiated.  Every function body that is lowered comes from the /repo headers.
#include "tsolvers/stpsolver/SafeInt.h"
#include "tsolvers/stpsolver/IDLSolver.h"
#include "tsolvers/stpsolver/RDLSolver.h"
